//! Partition enumerated configurations over worker threads; deterministic merging of results
//! (per violation key the reproduction with the smallest rank is kept, independent of timing).
#![allow(dead_code)]
use std::collections::{BTreeMap, BTreeSet};
use std::sync::atomic::{AtomicBool, AtomicUsize, Ordering};
use std::time::Instant;

use explorer::{h64, DfsStats, Report, Value};

pub type Rank = (u64, u64, u64);

#[derive(Default)]
pub struct Acc {
    pub executions: u64,
    pub decision_points: u64,
    pub max_depth: usize,
    pub capped: bool,
    pub divergences: Vec<String>,
    pub viol: BTreeMap<String, (Rank, String, Value, u64)>,
    pub nontrivial: BTreeSet<u64>,
    pub outcomes: BTreeSet<u64>,
    pub states: BTreeSet<u64>,
    pub samples: BTreeMap<u64, Value>,
    pub counters: BTreeMap<String, u64>,
    pub steps: u64,
}

impl Acc {
    pub fn absorb(&mut self, st: &DfsStats) {
        self.executions += st.executions;
        self.decision_points += st.decision_points;
        self.max_depth = self.max_depth.max(st.max_depth);
        self.capped |= st.capped;
        self.divergences.extend(st.divergences.iter().cloned());
    }
    pub fn violation(&mut self, key: &str, rank: Rank, what: impl FnOnce() -> String, replay: impl FnOnce() -> Value) {
        match self.viol.get_mut(key) {
            Some(e) => {
                e.3 += 1;
                if rank < e.0 {
                    e.0 = rank;
                    e.1 = what();
                    e.2 = replay();
                }
            }
            None => {
                self.viol.insert(key.to_string(), (rank, what(), replay(), 1));
            }
        }
    }
    pub fn count(&mut self, k: &str, n: u64) {
        *self.counters.entry(k.to_string()).or_default() += n;
    }
    pub fn nontrivial<T: std::hash::Hash + ?Sized>(&mut self, t: &T) {
        self.nontrivial.insert(h64(t));
    }
    pub fn outcome<T: std::hash::Hash + ?Sized>(&mut self, t: &T) {
        self.outcomes.insert(h64(t));
    }
    pub fn state<T: std::hash::Hash + ?Sized>(&mut self, t: &T) {
        self.states.insert(h64(t));
    }
    /// Keep the samples with the smallest order keys.
    pub fn sample(&mut self, order: u64, v: impl FnOnce() -> Value) {
        if self.samples.len() < 5 || self.samples.keys().next_back().is_some_and(|k| order < *k) {
            if !self.samples.contains_key(&order) {
                self.samples.insert(order, v());
                while self.samples.len() > 5 {
                    self.samples.pop_last();
                }
            }
        }
    }
    pub fn merge(&mut self, o: Acc) {
        self.executions += o.executions;
        self.decision_points += o.decision_points;
        self.max_depth = self.max_depth.max(o.max_depth);
        self.capped |= o.capped;
        self.divergences.extend(o.divergences);
        self.steps += o.steps;
        for (k, (rank, what, replay, n)) in o.viol {
            match self.viol.get_mut(&k) {
                Some(e) => {
                    e.3 += n;
                    if rank < e.0 {
                        e.0 = rank;
                        e.1 = what;
                        e.2 = replay;
                    }
                }
                None => {
                    self.viol.insert(k, (rank, what, replay, n));
                }
            }
        }
        self.nontrivial.extend(o.nontrivial);
        self.outcomes.extend(o.outcomes);
        self.states.extend(o.states);
        for (k, v) in o.samples {
            self.samples.entry(k).or_insert(v);
        }
        while self.samples.len() > 5 {
            self.samples.pop_last();
        }
        for (k, n) in o.counters {
            *self.counters.entry(k).or_default() += n;
        }
    }
    /// Move everything into the report as one part.
    pub fn into_report(self, rep: &mut Report, part: &str, max_dev: usize) {
        let st = DfsStats {
            executions: self.executions,
            decision_points: self.decision_points,
            max_depth: self.max_depth,
            capped: self.capped,
            divergences: {
                let mut d = self.divergences;
                d.sort();
                d.truncate(5);
                d
            },
        };
        rep.absorb_dfs(part, &st, max_dev);
        for (k, (_, what, replay, n)) in self.viol {
            rep.violation(k.clone(), what, replay);
            for _ in 1..n.min(1_000_000) {
                rep.violation(k.clone(), "", Value::Null);
            }
        }
        for h in self.nontrivial {
            rep.nontrivial(&h);
        }
        for h in self.outcomes {
            rep.outcome(&h);
        }
        for h in self.states {
            rep.state(&h);
        }
        for (_, v) in self.samples {
            rep.sample(v);
        }
    }
}

/// Run `f(index, item, acc)` for every item on `threads` workers (dynamic distribution); returns
/// the merged accumulator.  `deadline`: stop handing out items after this instant (marks `capped`).
pub fn par_for<T: Sync>(items: &[T], threads: usize, deadline: Instant, f: impl Fn(usize, &T, &mut Acc) + Sync) -> Acc {
    let next = AtomicUsize::new(0);
    let capped = AtomicBool::new(false);
    let threads = threads.max(1);
    let mut total = Acc::default();
    let parts: Vec<Acc> = std::thread::scope(|s| {
        let hs: Vec<_> = (0..threads)
            .map(|_| {
                s.spawn(|| {
                    let mut acc = Acc::default();
                    loop {
                        let i = next.fetch_add(1, Ordering::SeqCst);
                        if i >= items.len() {
                            break;
                        }
                        if Instant::now() > deadline {
                            capped.store(true, Ordering::SeqCst);
                            break;
                        }
                        f(i, &items[i], &mut acc);
                    }
                    acc
                })
            })
            .collect();
        hs.into_iter().map(|h| h.join().unwrap()).collect()
    });
    for p in parts {
        total.merge(p);
    }
    if capped.load(Ordering::SeqCst) {
        total.capped = true;
    }
    total
}
