//! C25 Topic handshake transfers the initiator's topic or fails cleanly.
//!
//! Part 1 (E-TASK, all schedules): the real initiator and the real acceptor joined by harness
//! pipes of capacity unbounded / 0 (rendezvous) / 1, for every topic of a 3-element set.
//! Part 2 (fault enumeration): each real side against a scripted peer that plays every truncation
//! of the honest transcript, every single substitution (each message kind at each position, wrong
//! topic, an undecodable `Err` item) and one injected trailing message, combined with a sink
//! that fails at every operation (poll_ready / start_send / poll_flush of every message).
//! Oracle: an honest run ends `Ok` with exactly the initiator's topic; every run in which the
//! messages the real side consumed deviate from the honest transcript, the stream ended early or
//! the sink failed ends in `Err`; never `Ok(other topic)`; never parked without a wake-up.
use std::cell::RefCell;

use explorer::task::{block_on_quiescent, End, Exec};
use explorer::{catch, dfs, json, DfsCfg, Report};
use futures_channel::mpsc;
use p2panda_sync::protocols::{
    TopicHandshakeAcceptor, TopicHandshakeError, TopicHandshakeEvent, TopicHandshakeInitiator, TopicHandshakeMessage,
};
use p2panda_sync::traits::Protocol;
use serde::{Deserialize, Serialize};

use crate::fixtures::{duplex, Cap, ScriptSink, ScriptStream, SinkFault};

#[derive(Clone, Debug, PartialEq, Eq, Hash, Serialize, Deserialize)]
pub struct T(pub String);

type Msg = TopicHandshakeMessage<T>;
type Evt = TopicHandshakeEvent<T>;

fn topics() -> Vec<T> {
    vec![T("".into()), T("cats".into()), T("a-much-longer-topic-name/with/segments".into())]
}

fn err_kind(e: &TopicHandshakeError<T>) -> &'static str {
    match e {
        TopicHandshakeError::UnexpectedMessage(_) => "UnexpectedMessage",
        TopicHandshakeError::UnexpectedStreamClosure => "UnexpectedStreamClosure",
        TopicHandshakeError::MessageSink(_) => "MessageSink",
        TopicHandshakeError::MessageStream(_) => "MessageStream",
        TopicHandshakeError::MpscSend(_) => "MpscSend",
    }
}

fn msg_name(m: &Result<Msg, String>) -> String {
    match m {
        Ok(TopicHandshakeMessage::Topic(t)) => format!("Topic({:?})", t.0),
        Ok(TopicHandshakeMessage::Done) => "Done".into(),
        Err(_) => "Err(undecodable)".into(),
    }
}

// ------------------------------------------------------------------------------------------
// Part 1: both real sides
// ------------------------------------------------------------------------------------------

fn part_both(rep: &mut Report) {
    for cap in [Cap::Unbounded, Cap::Bounded(0), Cap::Bounded(1)] {
        for (ti, topic) in topics().into_iter().enumerate() {
            let name = format!("both-real/{cap:?}/topic{ti}");
            let mut results = vec![];
            let st = dfs(
                &DfsCfg::default(),
                |ch| {
                    let ((mut i_tx, mut i_rx), (mut a_tx, mut a_rx)) = duplex::<Msg>(cap);
                    let wires = [i_tx.st.clone(), a_tx.st.clone()];
                    let (iev_tx, iev_rx) = mpsc::channel::<Evt>(128);
                    let (aev_tx, aev_rx) = mpsc::channel::<Evt>(128);
                    let ri: RefCell<Option<Result<(), TopicHandshakeError<T>>>> = RefCell::new(None);
                    let ra: RefCell<Option<Result<T, TopicHandshakeError<T>>>> = RefCell::new(None);
                    let init = TopicHandshakeInitiator::new(topic.clone(), iev_tx);
                    let acc = TopicHandshakeAcceptor::<T, Evt>::new(aev_tx);
                    let r = catch(|| {
                        let mut ex = Exec::new();
                        ex.spawn("initiator", async {
                            *ri.borrow_mut() = Some(init.run(&mut i_tx, &mut i_rx).await);
                        });
                        ex.spawn("acceptor", async {
                            *ra.borrow_mut() = Some(acc.run(&mut a_tx, &mut a_rx).await);
                        });
                        let end = ex.run(ch, 1_000);
                        (end, ex.steps)
                    });
                    drop((iev_rx, aev_rx));
                    let wire: Vec<Vec<String>> = wires.iter().map(|w| w.borrow().log.iter().map(|m| msg_name(&Ok(m.clone()))).collect()).collect();
                    (r, ri.into_inner(), ra.into_inner(), wire)
                },
                |ch, (r, ri, ra, wire)| {
                    results.push((ch.describe(), ch.vector(), r, ri, ra, wire));
                },
            );
            for (desc, vector, r, ri, ra, wire) in results {
                rep.outcome(&(format!("{r:?}"), ri.as_ref().map(|x| x.as_ref().map_err(err_kind).is_ok()), ra.as_ref().map(|x| x.as_ref().ok().cloned()), &wire));
                let replay = json!({"part": name, "vector": vector});
                let ctx = format!("topic {:?}, transport {cap:?}, schedule [{desc}]", topic.0);
                match r {
                    Err(p) => {
                        rep.violation("panic", format!("handshake code panicked: {p}; {ctx}"), replay);
                        continue;
                    }
                    Ok((End::AllDone, steps)) => rep.transitions += steps,
                    Ok((End::Deadlock(t), _)) => {
                        rep.violation(
                            format!("hang/both-honest/{}", if cap == Cap::Bounded(0) { "capacity-0" } else { "buffered" }),
                            format!("two honest sides never complete: tasks {t:?} parked forever; messages written: initiator {:?}, acceptor {:?}; {ctx}", wire[0], wire[1]),
                            replay,
                        );
                        continue;
                    }
                    Ok((End::Horizon, _)) => {
                        rep.violation("livelock/both-honest", format!("step horizon reached; {ctx}"), replay);
                        continue;
                    }
                }
                match (&ri, &ra) {
                    (Some(Ok(())), Some(Ok(t))) if *t == topic => {
                        rep.nontrivial(&(&name, &vector));
                    }
                    (Some(Ok(())), Some(Ok(t))) => rep.violation(
                        "wrong-topic/both-honest",
                        format!("acceptor output {:?} but the initiator's topic is {:?}; {ctx}", t.0, topic.0),
                        replay,
                    ),
                    _ => rep.violation(
                        "honest-handshake-failed",
                        format!(
                            "initiator: {:?}, acceptor: {:?}; {ctx}",
                            ri.as_ref().map(|r| r.as_ref().map_err(err_kind)),
                            ra.as_ref().map(|r| r.as_ref().map_err(err_kind))
                        ),
                        replay,
                    ),
                }
            }
            rep.absorb_dfs(&name, &st, usize::MAX);
        }
    }
}

// ------------------------------------------------------------------------------------------
// Part 2: one real side against a scripted peer
// ------------------------------------------------------------------------------------------

#[derive(Clone, Debug)]
struct Script {
    items: Vec<Result<Msg, String>>,
    /// Human name of the deviation from the honest transcript ("honest" if none).
    deviation: String,
    /// Class for the violation key.
    class: &'static str,
}

/// All scripts derived from the honest transcript `honest` (what the peer would send) of which
/// the real side consumes the first `consumed` items.
fn scripts(honest: &[Msg], consumed: usize, topic: &T, other: &T) -> Vec<Script> {
    let ok = |v: &[Msg]| v.iter().cloned().map(Ok).collect::<Vec<_>>();
    let mut out = vec![Script { items: ok(honest), deviation: "honest".into(), class: "honest" }];
    // truncations: the peer closes after k messages
    for k in 0..consumed {
        out.push(Script { items: ok(&honest[..k]), deviation: format!("stream closes after {k} message(s)"), class: "stream-closed" });
    }
    // substitutions at every consumed position
    let kinds: Vec<(Result<Msg, String>, &'static str)> = vec![
        (Ok(TopicHandshakeMessage::Topic(topic.clone())), "Topic(same)"),
        (Ok(TopicHandshakeMessage::Topic(other.clone())), "Topic(other)"),
        (Ok(TopicHandshakeMessage::Done), "Done"),
        (Err("undecodable frame".into()), "Err"),
    ];
    for pos in 0..consumed {
        for (k, kname) in &kinds {
            let mut items = ok(honest);
            if items[pos] == *k {
                continue;
            }
            items[pos] = k.clone();
            let class = if kname == &"Err" { "err-item" } else { "substituted-message" };
            out.push(Script { items, deviation: format!("message {pos} replaced by {kname}"), class });
        }
    }
    // one extra message injected before every consumed position
    for pos in 0..consumed {
        for (k, kname) in &kinds {
            let mut items = ok(honest);
            items.insert(pos, k.clone());
            if items[..consumed] == ok(honest)[..consumed] {
                continue;
            }
            let class = if kname == &"Err" { "err-item" } else { "injected-message" };
            out.push(Script { items, deviation: format!("{kname} injected before message {pos}"), class });
        }
    }
    out
}

fn sink_faults(sends: usize) -> Vec<SinkFault> {
    let mut v = vec![SinkFault::None];
    for k in 0..sends {
        v.push(SinkFault::Ready(k));
        v.push(SinkFault::Start(k));
        v.push(SinkFault::Flush(k));
    }
    v
}

/// What a scripted run must produce.
#[derive(Debug, PartialEq)]
enum Want {
    OkTopic(T),
    Err,
}

fn judge(
    rep: &mut Report,
    side: &str,
    script: &Script,
    fault: SinkFault,
    want: &Want,
    got: Result<Result<Option<T>, &'static str>, &'static str>,
    panic: Option<String>,
    ctx: String,
    replay: explorer::Value,
) {
    let fclass = match fault {
        SinkFault::None => script.class,
        _ if script.class == "honest" => "sink-failed",
        _ => script.class,
    };
    if let Some(p) = panic {
        rep.violation(format!("panic/{side}"), format!("{p}; {ctx}"), replay);
        return;
    }
    match got {
        Err(why) => rep.violation(
            format!("hang/{side}/{fclass}"),
            format!("the real {side} neither returned nor can be woken ({why}); {ctx}"),
            replay,
        ),
        Ok(Ok(out)) => match want {
            Want::Err => rep.violation(
                format!("ok-despite-misbehaviour/{side}/{fclass}"),
                format!("the real {side} returned Ok({:?}) although the run is not an honest handshake; {ctx}", out.map(|t| t.0)),
                replay,
            ),
            Want::OkTopic(t) => {
                if let Some(o) = out {
                    if o != *t {
                        rep.violation(format!("wrong-topic/{side}"), format!("output {:?}, peer sent {:?}; {ctx}", o.0, t.0), replay);
                    }
                }
            }
        },
        Ok(Err(kind)) => {
            if let Want::OkTopic(_) = want {
                rep.violation(
                    format!("honest-handshake-failed/{side}"),
                    format!("the real {side} returned Err({kind}) although the peer and the transport behaved honestly; {ctx}"),
                    replay,
                );
            }
        }
    }
}

fn part_scripted(rep: &mut Report) {
    let ts = topics();
    let mut runs = 0u64;
    for (ti, topic) in ts.iter().enumerate() {
        let other = &ts[(ti + 1) % ts.len()];
        // --- real acceptor, scripted initiator: honest transcript [Topic(t), Done], acceptor
        //     consumes 2 messages and sends 1 (Done)
        let honest = vec![TopicHandshakeMessage::Topic(topic.clone()), TopicHandshakeMessage::Done];
        for script in scripts(&honest, 2, topic, other) {
            for fault in sink_faults(1) {
                runs += 1;
                let mut stream = ScriptStream::new(script.items.clone());
                let mut sink = ScriptSink::<Msg>::new(fault);
                let (ev_tx, ev_rx) = mpsc::channel::<Evt>(128);
                let acc = TopicHandshakeAcceptor::<T, Evt>::new(ev_tx);
                let r = catch(|| block_on_quiescent(acc.run(&mut sink, &mut stream), 1_000));
                drop(ev_rx);
                // honest prefix as consumed by the acceptor?
                let first_topic = match script.items.first() {
                    Some(Ok(TopicHandshakeMessage::Topic(t))) => Some(t.clone()),
                    _ => None,
                };
                let clean_msgs = first_topic.is_some() && matches!(script.items.get(1), Some(Ok(TopicHandshakeMessage::Done)));
                // the sink fault is reached only if the acceptor gets as far as sending Done
                let fault_reached = fault != SinkFault::None && first_topic.is_some();
                let want = if clean_msgs && !fault_reached { Want::OkTopic(first_topic.clone().unwrap()) } else { Want::Err };
                let ctx = format!(
                    "acceptor against scripted initiator: {} (peer plays [{}] then closes), sink fault {fault:?}; sink received {:?}",
                    script.deviation,
                    script.items.iter().map(msg_name).collect::<Vec<_>>().join(", "),
                    sink.log.iter().map(|m| msg_name(&Ok(m.clone()))).collect::<Vec<_>>()
                );
                let replay = json!({"part": "scripted/acceptor", "topic": ti, "deviation": script.deviation, "sink_fault": format!("{fault:?}")});
                let (got, panic) = match r {
                    Ok(g) => (g.map(|x| x.map(Some).map_err(|e| err_kind(&e))), None),
                    Err(p) => (Ok(Err("panic")), Some(p)),
                };
                rep.outcome(&("acceptor", &script.deviation, format!("{fault:?}"), format!("{got:?}")));
                if want == Want::Err && !script.items.is_empty() {
                    rep.nontrivial(&("acceptor", ti, &script.deviation, format!("{fault:?}")));
                }
                // A substituted/injected Topic(other) in first position that is followed by Done is,
                // from the acceptor's view, an honest handshake for that other topic.
                judge(rep, "acceptor", &script, fault, &want, got, panic, ctx, replay);
            }
        }
        // --- real initiator, scripted acceptor: honest transcript [Done], initiator consumes 1
        //     message and sends 2 (Topic, Done)
        let honest = vec![TopicHandshakeMessage::Done];
        for script in scripts(&honest, 1, topic, other) {
            for fault in sink_faults(2) {
                runs += 1;
                let mut stream = ScriptStream::new(script.items.clone());
                let mut sink = ScriptSink::<Msg>::new(fault);
                let (ev_tx, ev_rx) = mpsc::channel::<Evt>(128);
                let init = TopicHandshakeInitiator::<T, Evt>::new(topic.clone(), ev_tx);
                let r = catch(|| block_on_quiescent(init.run(&mut sink, &mut stream), 1_000));
                drop(ev_rx);
                let clean_msgs = matches!(script.items.first(), Some(Ok(TopicHandshakeMessage::Done)));
                // fault on message 0 (Topic) is always reached; on message 1 (Done) only after a
                // clean first message
                let fault_reached = match fault {
                    SinkFault::None => false,
                    SinkFault::Ready(k) | SinkFault::Start(k) | SinkFault::Flush(k) => k == 0 || clean_msgs,
                };
                let want = if clean_msgs && !fault_reached { Want::OkTopic(topic.clone()) } else { Want::Err };
                let ctx = format!(
                    "initiator (topic {:?}) against scripted acceptor: {} (peer plays [{}] then closes), sink fault {fault:?}; sink received {:?}",
                    topic.0,
                    script.deviation,
                    script.items.iter().map(msg_name).collect::<Vec<_>>().join(", "),
                    sink.log.iter().map(|m| msg_name(&Ok(m.clone()))).collect::<Vec<_>>()
                );
                let replay = json!({"part": "scripted/initiator", "topic": ti, "deviation": script.deviation, "sink_fault": format!("{fault:?}")});
                let (got, panic) = match r {
                    Ok(g) => (g.map(|x| x.map(|_| None).map_err(|e| err_kind(&e))), None),
                    Err(p) => (Ok(Err("panic")), Some(p)),
                };
                rep.outcome(&("initiator", &script.deviation, format!("{fault:?}"), format!("{got:?}")));
                if want == Want::Err && !script.items.is_empty() {
                    rep.nontrivial(&("initiator", ti, &script.deviation, format!("{fault:?}")));
                }
                // what the initiator wrote must start with its own topic
                if let Some(TopicHandshakeMessage::Topic(t)) = sink.log.first() {
                    if t != topic {
                        rep.violation("wrong-topic/initiator-sent", format!("initiator wrote Topic({:?}) for topic {:?}", t.0, topic.0), replay.clone());
                    }
                }
                judge(rep, "initiator", &script, fault, &want, got, panic, ctx, replay);
            }
        }
    }
    rep.evals(runs);
    rep.part(json!({"part": "scripted peer x failing sink", "runs": runs}));
}

pub fn run(mut rep: Report) -> i32 {
    rep.rule = "part 1: every schedule of the two real sides for 3 topics x transports {unbounded, rendezvous, capacity 1}; part 2: every (script, sink fault) pair where script = honest transcript, each truncation, each single substitution {Topic(same), Topic(other), Done, Err item} at each consumed position, each single injection, and sink fault = none or poll_ready/start_send/poll_flush failing for each message; non-trivial = faulty run in which the real side consumed at least one message or reached the failing sink".into();
    part_both(&mut rep);
    part_scripted(&mut rep);
    rep.sample(json!({"case": "acceptor vs scripted initiator playing [Topic(\"cats\"), Topic(\"cats\")]", "expected": "Err(UnexpectedMessage)"}));
    rep.sample(json!({"case": "initiator vs scripted acceptor playing [] (closed)", "expected": "Err(UnexpectedStreamClosure)"}));
    rep.sample(json!({"case": "both real sides over a rendezvous transport, topic \"\"", "expected": "acceptor Ok(\"\"), initiator Ok"}));
    rep.assume("the event channel has capacity 128 and a live receiver that is not drained (as in p2panda-net's call sites)");
    rep.assume("a peer that stays silent with the stream open is outside the property (no timeout exists at this layer); scripted peers close the stream after their last message");
    rep.assume("the scripted peer's messages are all available immediately (a misbehaving peer need not wait for our messages)");
    rep.finish()
}
