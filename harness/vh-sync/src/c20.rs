//! C20 Each sync side sends exactly one Done, even under concurrent pruning.
//!
//! E-TASK, two real `LogSync::run` futures over unbounded pipes.  A monitor on each sink checks
//! the regular language `Have (Done | PreSync Operation* Done)` with nothing after `Done`.
//! Part 1 (no concurrent change): every configuration x every scheduler/select choice vector
//! within the deviation bound.  Part 2 (fault enumeration): a fault wrapper around one side's
//! store applies one concurrent mutation {prune(author, log, until), delete(op), insert(next op),
//! insert(prune-flagged next op)+prune} before store call number k, for every k reached in the
//! fault-free run, every mutation, both sides.  Part 3: the same through two real
//! `TopicLogSync::run` futures with live mode: no `Sync(_)` frame is written after the side's
//! sync phase ended and no live phase reads a stray sync frame (session must not fail).
use std::cell::RefCell;
use std::collections::BTreeMap;
use std::time::{Duration, Instant};

use explorer::task::{disown_select, End, Exec};
use explorer::{catch, dfs, json, Chooser, Report};
use futures_channel::mpsc;
use futures_util::SinkExt;
use p2panda_core::SeqNum;
use p2panda_sync::protocols::{TopicLogSync, TopicLogSyncError, TopicLogSyncEvent, TopicLogSyncMessage};
use p2panda_sync::traits::Protocol;
use p2panda_sync::ToSync;
use tokio::sync::broadcast;

use crate::fixtures::{duplex, make_chain, Call, CallKind, Cap, Ext, FaultStore, LogIdT, Mutation, Op, TOPIC};
use crate::par::{par_for, Acc};
use crate::replica::{build, template, describe, product, to_json, Chains, Config, SlotCfg, SlotSide};
use crate::session::{run_pair, sym, Outcome, Sym};

/// Monitor for one side's sink.  `None` = the word is in the language.
pub fn language_violation(word: &[Sym]) -> Option<&'static str> {
    let dones = word.iter().filter(|s| **s == Sym::Done).count();
    if word.first() != Some(&Sym::Have) {
        return Some("no-leading-have");
    }
    if dones >= 2 {
        return Some("double-done");
    }
    if let Some(p) = word.iter().position(|s| *s == Sym::Done) {
        if p + 1 != word.len() {
            return Some("message-after-done");
        }
    } else {
        return Some("no-done");
    }
    let body = &word[1..word.len() - 1];
    if body.is_empty() {
        return None;
    }
    if body[0] != Sym::PreSync {
        return Some("operation-without-presync");
    }
    if body[1..].iter().any(|s| *s != Sym::Operation) {
        return Some("malformed");
    }
    None
}

const CHAIN_LEN: usize = 4;

/// Chains for C20: the regular chain (no prune flag) of length 4 per slot, plus for every height h
/// a prune-flagged version of the operation at seq h+1.
struct World {
    chains: Chains,
    flagged_next: BTreeMap<(usize, LogIdT, SeqNum), Op>,
}

impl World {
    fn new() -> World {
        let chains = Chains::new(2, 2, CHAIN_LEN, &[None]);
        let mut flagged_next = BTreeMap::new();
        for a in 0..2 {
            for l in 0..2u64 {
                for s in 1..CHAIN_LEN as u32 {
                    let c = make_chain(a, l, s as usize + 1, Some(s));
                    flagged_next.insert((a, l, s), c[s as usize].clone());
                }
            }
        }
        World { chains, flagged_next }
    }
}

fn listed_height(s: &SlotCfg, side: usize) -> Option<Option<SeqNum>> {
    match s.side[side] {
        SlotSide::Listed(h, _) => Some(h),
        _ => None,
    }
}

/// All single mutations of `side`'s store.
fn mutations(w: &World, cfg: &Config, side: usize) -> Vec<Mutation> {
    let mut out = vec![];
    for s in &cfg.slots {
        let Some(h) = listed_height(s, side) else { continue };
        let author = w.chains.authors[s.a];
        let chain = w.chains.get(s.a, s.l, None);
        let next = h.map(|h| h + 1).unwrap_or(0);
        if let Some(h) = h {
            for until in 1..=h + 1 {
                out.push(Mutation::Prune { author, log: s.l, until });
            }
            for seq in 0..=h {
                out.push(Mutation::Delete { hash: chain[seq as usize].hash, author, log: s.l, seq });
            }
            // a prune-flagged next operation is fork-free only if the other side is not ahead
            let other = listed_height(s, 1 - side).flatten();
            if (next as usize) < CHAIN_LEN && other.is_none_or(|o| o <= h) {
                out.push(Mutation::InsertAndPrune { op: Box::new(w.flagged_next[&(s.a, s.l, next)].clone()) });
            }
        }
        if (next as usize) < CHAIN_LEN {
            out.push(Mutation::Insert { op: Box::new(chain[next as usize].clone()) });
        }
    }
    out
}

/// Where, relative to the mutated log, the mutation hit the session of the faulted side.
fn window(trace: &[Call], fired: usize, m: &Mutation) -> &'static str {
    let (author, log) = match m {
        Mutation::Prune { author, log, .. } | Mutation::Delete { author, log, .. } => (*author, *log),
        Mutation::Insert { op } | Mutation::InsertAndPrune { op } => (op.header.verifying_key, op.header.extensions.log),
    };
    let before = &trace[..fired];
    let seen = |k: CallKind, need_log: bool| before.iter().any(|c| c.kind == k && c.author == Some(author) && (!need_log || c.log == Some(log)));
    if !seen(CallKind::Heights, false) {
        "before-heights"
    } else if !seen(CallKind::Size, true) {
        "between-heights-and-size"
    } else if !seen(CallKind::Entries, true) {
        "between-size-and-entries"
    } else {
        "after-entries"
    }
}

fn syms(wire: &[crate::session::Msg]) -> Vec<Sym> {
    wire.iter().map(sym).collect()
}

// ------------------------------------------------------------------------------------------
// Parts 1 and 2: LogSync
// ------------------------------------------------------------------------------------------

fn log_sync_parts(rep: &mut Report, w: &World, configs: &[(usize, Config)], dev_free: usize, dev_fault: usize, wall: Instant) {
    let authors = w.chains.authors.clone();
    let acc = par_for(configs, rep.args.threads, wall, |_, (idx, cfg), acc: &mut Acc| {
        let idx = *idx;
        // ---- part 1: no concurrent change
        let mut calls = [0usize, 0usize];
        // violation classes this configuration shows without any concurrent change: a faulted run
        // reports only classes the fault-free exploration of the same configuration did not show
        let mut free_classes: std::collections::BTreeSet<&'static str> = Default::default();
        let tpl = [template(&w.chains, cfg, 0), template(&w.chains, cfg, 1)];
        let st = dfs(
            &crate::session::dfs_cfg(dev_free, wall),
            |ch: &Chooser| {
                let reps = [tpl[0].instantiate(), tpl[1].instantiate()];
                let fs = [FaultStore::new(reps[0].store.clone(), None), FaultStore::new(reps[1].store.clone(), None)];
                let run = run_pair(ch, [fs[0].clone(), fs[1].clone()], [reps[0].logs.clone(), reps[1].logs.clone()], Cap::Unbounded, 2_000);
                (run, [fs[0].trace().len(), fs[1].trace().len()])
            },
            |ch, (run, n)| {
                acc.steps += run.steps;
                if ch.vector().iter().all(|c| *c == 0) {
                    calls = n;
                }
                let words = [syms(&run.wire[0]), syms(&run.wire[1])];
                acc.outcome(&("free", &words));
                let rank = (ch.deviations() as u64, idx as u64, ch.vector().len() as u64);
                let ctx = || format!("no concurrent store change; A wrote {:?}, B wrote {:?}; configuration: {}; schedule [{}]", words[0], words[1], describe(cfg), ch.describe());
                let replay = || json!({"part": "no-fault", "config_index": idx, "config": to_json(cfg), "vector": ch.vector()});
                if let Some(p) = &run.panic {
                    let spin = p.starts_with(crate::session::SPIN);
                    free_classes.insert(if spin { "livelock/sync-loop-spins" } else { "panic" });
                    let key = if spin { "livelock/sync-loop-spins/no-concurrent-change" } else { "panic/no-concurrent-change" };
                    acc.violation(key, rank, || format!("{p}; {}", ctx()), replay);
                    return;
                }
                if run.end != End::AllDone || run.outcome.iter().any(|o| *o != Outcome::Ok) {
                    free_classes.insert("session-did-not-complete");
                    acc.violation("session-did-not-complete/no-concurrent-change", rank, || format!("end {:?}, outcomes {:?}; {}", run.end, run.outcome, ctx()), replay);
                    return;
                }
                for i in 0..2 {
                    if let Some(class) = language_violation(&words[i]) {
                        free_classes.insert(class);
                        acc.violation(&format!("{class}/no-concurrent-change"), rank, || format!("side {} wrote {:?}; {}", ["A", "B"][i], words[i], ctx()), replay);
                    }
                }
            },
        );
        acc.absorb(&st);
        acc.state(&("cfg", idx));
        acc.count("fault_free_executions", st.executions);

        // ---- part 2: one concurrent mutation before store call k
        for side in 0..2 {
            let muts = mutations(w, cfg, side);
            for k in 0..calls[side] {
                for (mi, m) in muts.iter().enumerate() {
                    let st = dfs(
                        &crate::session::dfs_cfg(dev_fault, wall),
                        |ch: &Chooser| {
                            let reps = [tpl[0].instantiate(), tpl[1].instantiate()];
                            let plan = |s: usize| if s == side { Some((k, m.clone())) } else { None };
                            let fs = [FaultStore::new(reps[0].store.clone(), plan(0)), FaultStore::new(reps[1].store.clone(), plan(1))];
                            let run = run_pair(ch, [fs[0].clone(), fs[1].clone()], [reps[0].logs.clone(), reps[1].logs.clone()], Cap::Unbounded, 2_000);
                            (run, fs[side].trace(), fs[side].fired())
                        },
                        |ch, (run, trace, fired)| {
                            acc.steps += run.steps;
                            let Some(fired) = fired else {
                                acc.count("fault_not_reached", 1);
                                return;
                            };
                            let win = window(&trace, fired, m);
                            let eff = m.effect();
                            let words = [syms(&run.wire[0]), syms(&run.wire[1])];
                            acc.outcome(&("fault", &words, win, eff));
                            if win == "between-heights-and-size" || win == "between-size-and-entries" {
                                acc.nontrivial(&(idx, side, k, mi));
                            }
                            let rank = (cfg.slots.iter().map(|s| s.side.iter().filter(|x| **x != SlotSide::Unlisted).count() as u64).sum::<u64>() * 100 + ch.deviations() as u64, idx as u64, (k * 100 + mi) as u64);
                            let ctx = || {
                                format!(
                                    "{} applied to side {}'s store before its store call #{k} ({:?}); A wrote {:?}, B wrote {:?}; configuration: {}; schedule [{}]",
                                    m.describe(&authors),
                                    ["A", "B"][side],
                                    trace.get(fired).map(|c| c.kind),
                                    words[0],
                                    words[1],
                                    describe(cfg),
                                    ch.describe()
                                )
                            };
                            let replay = || json!({"part": "fault", "config_index": idx, "config": to_json(cfg), "side": side, "store_call": k, "mutation": m.describe(&authors), "vector": ch.vector()});
                            if let Some(p) = &run.panic {
                                let class = if p.starts_with(crate::session::SPIN) { "livelock/sync-loop-spins" } else { "panic" };
                                if !free_classes.contains(class) {
                                    acc.violation(&format!("{class}/{eff}-{win}"), rank, || format!("{p}; {}", ctx()), replay);
                                }
                                return;
                            }
                            for i in 0..2 {
                                if let Some(class) = language_violation(&words[i]) {
                                    // a side that never finished is reported below, not as "no-done"
                                    if (class == "no-done" && run.outcome[i] != Outcome::Ok) || free_classes.contains(class) {
                                        continue;
                                    }
                                    acc.violation(&format!("{class}/{eff}-{win}"), rank, || format!("side {} wrote {:?}; {}", ["A", "B"][i], words[i], ctx()), replay);
                                }
                            }
                            if (run.end != End::AllDone || run.outcome.iter().any(|o| *o != Outcome::Ok)) && !free_classes.contains("session-did-not-complete") {
                                acc.violation(
                                    &format!("session-did-not-complete/{eff}-{win}"),
                                    rank,
                                    || format!("end {:?}, outcomes {:?}: a side never sends its Done / never finishes; {}", run.end, run.outcome, ctx()),
                                    replay,
                                );
                            }
                        },
                    );
                    acc.absorb(&st);
                    acc.count("fault_executions", st.executions);
                }
            }
        }
        acc.sample(idx as u64 % 7919 * 100 + idx as u64 % 100, || json!({"config": describe(cfg), "store_calls_A": calls[0], "store_calls_B": calls[1], "mutations_A": mutations(w, cfg, 0).len(), "mutations_B": mutations(w, cfg, 1).len()}));
    });
    rep.transitions += acc.steps;
    rep.set("log_sync_counters", json!(acc.counters));
    acc.into_report(rep, &format!("LogSync: fault-free (deviations<={dev_free}) + one mutation before store call k (deviations<={dev_fault})"), dev_fault.max(dev_free));
}

// ------------------------------------------------------------------------------------------
// Part 3: TopicLogSync + live mode
// ------------------------------------------------------------------------------------------

type TMsg = TopicLogSyncMessage<LogIdT, Ext>;

#[derive(Clone, Copy, Debug, PartialEq, Eq, Hash)]
enum Frame {
    Sync(Sym),
    Live,
    Close,
}

fn frame(m: &TMsg) -> Frame {
    match m {
        TopicLogSyncMessage::Sync(s) => Frame::Sync(sym(s)),
        TopicLogSyncMessage::Live(..) => Frame::Live,
        TopicLogSyncMessage::Close => Frame::Close,
    }
}

struct TopicRun {
    end: End,
    steps: u64,
    result: [Option<Result<(), String>>; 2],
    frames: [Vec<Frame>; 2],
    failed_events: [Vec<String>; 2],
    trace: Vec<Call>,
    fired: Option<usize>,
    panic: Option<String>,
}

fn run_topic_pair(ch: &Chooser, w: &World, cfg: &Config, plan: Option<(usize, usize, Mutation)>) -> TopicRun {
    let reps = [build(&w.chains, cfg, 0), build(&w.chains, cfg, 1)];
    for (i, r) in reps.iter().enumerate() {
        for s in &cfg.slots {
            if s.side[i].listed() {
                r.store.put_topic(&TOPIC, &w.chains.authors[s.a], &s.l);
            }
        }
    }
    let side = plan.as_ref().map(|p| p.0);
    let mk = |i: usize| FaultStore::new(reps[i].store.clone(), plan.as_ref().filter(|p| p.0 == i).map(|p| (p.1, p.2.clone())));
    let fs = [mk(0), mk(1)];
    let ((mut a_tx, mut a_rx), (mut b_tx, mut b_rx)) = duplex::<TMsg>(Cap::Unbounded);
    let st = [a_tx.st.clone(), b_tx.st.clone()];
    let (ev_a, mut evr_a) = broadcast::channel::<TopicLogSyncEvent<Ext>>(64);
    let (ev_b, mut evr_b) = broadcast::channel::<TopicLogSyncEvent<Ext>>(64);
    let (mut live_a_tx, live_a_rx) = mpsc::channel::<ToSync<Op>>(16);
    let (live_b_tx, live_b_rx) = mpsc::channel::<ToSync<Op>>(16);
    // A is told to close as soon as it is in live mode (the request waits in the live channel).
    let _ = explorer::task::block_on_quiescent(live_a_tx.send(ToSync::Close), 10);
    let pa = TopicLogSync::<[u8; 32], FaultStore, LogIdT, Ext>::new(TOPIC, fs[0].clone(), Some(live_a_rx), ev_a.clone());
    let pb = TopicLogSync::<[u8; 32], FaultStore, LogIdT, Ext>::new(TOPIC, fs[1].clone(), Some(live_b_rx), ev_b.clone());
    let ra: RefCell<Option<Result<(), TopicLogSyncError>>> = RefCell::new(None);
    let rb: RefCell<Option<Result<(), TopicLogSyncError>>> = RefCell::new(None);
    crate::session::own_select_guarded(ch);
    let r = catch(|| {
        let mut ex = Exec::new();
        ex.spawn("A", async {
            *ra.borrow_mut() = Some(pa.run(&mut a_tx, &mut a_rx).await);
        });
        ex.spawn("B", async {
            *rb.borrow_mut() = Some(pb.run(&mut b_tx, &mut b_rx).await);
        });
        let end = ex.run(ch, 2_000);
        (end, ex.steps)
    });
    disown_select();
    drop((live_a_tx, live_b_tx));
    let (end, steps, panic) = match r {
        Ok((e, s)) => (e, s, None),
        Err(p) => (End::Horizon, 0, Some(p)),
    };
    let mut failed_events = [vec![], vec![]];
    while let Ok(e) = evr_a.try_recv() {
        if let TopicLogSyncEvent::Failed { error } = e {
            failed_events[0].push(error);
        }
    }
    while let Ok(e) = evr_b.try_recv() {
        if let TopicLogSyncEvent::Failed { error } = e {
            failed_events[1].push(error);
        }
    }
    let res = |r: Option<Result<(), TopicLogSyncError>>| r.map(|x| x.map_err(|e| e.to_string()));
    let frames = [st[0].borrow().log.iter().map(frame).collect(), st[1].borrow().log.iter().map(frame).collect()];
    let (trace, fired) = match side {
        Some(s) => (fs[s].trace(), fs[s].fired()),
        None => (fs[0].trace(), None),
    };
    TopicRun { end, steps, result: [res(ra.into_inner()), res(rb.into_inner())], frames, failed_events, trace, fired, panic }
}

/// Frame-level monitor: the sync frames form a word of the language and no Sync frame follows the
/// first non-sync frame.
fn frame_violation(frames: &[Frame]) -> Option<&'static str> {
    let sync_word: Vec<Sym> = frames.iter().filter_map(|f| if let Frame::Sync(s) = f { Some(*s) } else { None }).collect();
    if let Some(c) = language_violation(&sync_word) {
        return Some(c);
    }
    let first_other = frames.iter().position(|f| !matches!(f, Frame::Sync(_)));
    if let Some(p) = first_other {
        if frames[p..].iter().any(|f| matches!(f, Frame::Sync(_))) {
            return Some("sync-frame-after-live-frame");
        }
    }
    None
}

fn topic_part(rep: &mut Report, w: &World, configs: &[(usize, Config)], dev: usize, wall: Instant) {
    let authors = w.chains.authors.clone();
    let acc = par_for(configs, rep.args.threads, wall, |_, (idx, cfg), acc: &mut Acc| {
        let idx = *idx;
        let judge = |acc: &mut Acc, ch: &Chooser, run: &TopicRun, label: &str, what: String, replay: explorer::Value, rank: (u64, u64, u64), skip: &std::collections::BTreeSet<String>| -> Vec<String> {
            let mut reported: Vec<String> = vec![];
            acc.steps += run.steps;
            acc.outcome(&("topic", &run.frames, &run.result, label));
            let ctx = format!("{what}; A wrote {:?}, B wrote {:?}; results {:?}; configuration: {}; schedule [{}]", run.frames[0], run.frames[1], run.result, describe(cfg), ch.describe());
            let mut report = |acc: &mut Acc, class: &str, what: String| {
                reported.push(class.to_string());
                if !skip.contains(class) {
                    acc.violation(&format!("{class}/{label}"), rank, || what, || replay.clone());
                }
            };
            if let Some(p) = &run.panic {
                let class = if p.starts_with(crate::session::SPIN) { "livelock/sync-loop-spins/topic-log-sync" } else { "panic/topic-log-sync" };
                report(acc, class, format!("{p}; {ctx}"));
                return reported;
            }
            for i in 0..2 {
                if let Some(class) = frame_violation(&run.frames[i]) {
                    if class == "no-done" && run.result[i] != Some(Ok(())) {
                        continue;
                    }
                    report(acc, &format!("{class}/topic-log-sync"), format!("side {} wrote {:?}; {ctx}", ["A", "B"][i], run.frames[i]));
                }
            }
            let stray = run.result.iter().any(|r| matches!(r, Some(Err(e)) if e.contains("unexpected protocol message")));
            if stray {
                report(acc, "stray-sync-frame-in-live-mode", format!("a live-mode phase read a sync frame and failed the session; {ctx}"));
            } else if run.end != End::AllDone || run.result.iter().any(|r| *r != Some(Ok(()))) {
                report(acc, "session-did-not-complete/topic-log-sync", format!("end {:?}; failed events {:?}; {ctx}", run.end, run.failed_events));
            }
            reported
        };
        // fault-free
        let mut calls = [0usize, 0usize];
        let none: std::collections::BTreeSet<String> = Default::default();
        let mut free_classes: std::collections::BTreeSet<String> = Default::default();
        let st = dfs(
            &crate::session::dfs_cfg(dev, wall),
            |ch: &Chooser| {
                let r0 = run_topic_pair(ch, w, cfg, None);
                // call counts of both sides under the default schedule
                let n = if ch.vector().iter().all(|c| *c == 0) {
                    let ch2 = Chooser::new(vec![]);
                    let a = run_topic_pair(&ch2, w, cfg, Some((0, usize::MAX, Mutation::Prune { author: authors[0], log: 0, until: 0 }))).trace.len();
                    let ch3 = Chooser::new(vec![]);
                    let b = run_topic_pair(&ch3, w, cfg, Some((1, usize::MAX, Mutation::Prune { author: authors[0], log: 0, until: 0 }))).trace.len();
                    Some([a, b])
                } else {
                    None
                };
                (r0, n)
            },
            |ch, (run, n)| {
                if let Some(n) = n {
                    calls = n;
                }
                let rank = (ch.deviations() as u64, idx as u64, ch.vector().len() as u64);
                free_classes.extend(judge(acc, ch, &run, "no-concurrent-change", "no concurrent store change".into(), json!({"part": "topic/no-fault", "config_index": idx, "config": to_json(cfg), "vector": ch.vector()}), rank, &none));
            },
        );
        acc.absorb(&st);
        acc.state(&("topic-cfg", idx));
        for side in 0..2 {
            let muts = mutations(w, cfg, side);
            for k in 0..calls[side] {
                for (mi, m) in muts.iter().enumerate() {
                    let st = dfs(
                        &crate::session::dfs_cfg(0, wall),
                        |ch: &Chooser| run_topic_pair(ch, w, cfg, Some((side, k, m.clone()))),
                        |ch, run| {
                            let Some(fired) = run.fired else { return };
                            let win = window(&run.trace, fired, m);
                            if win == "between-heights-and-size" || win == "between-size-and-entries" {
                                acc.nontrivial(&("topic", idx, side, k, mi));
                            }
                            let label = format!("{}-{win}", m.effect());
                            let rank = (cfg.slots.iter().map(|s| s.side.iter().filter(|x| **x != SlotSide::Unlisted).count() as u64).sum::<u64>() * 100, idx as u64, (k * 100 + mi) as u64);
                            judge(
                                acc,
                                ch,
                                &run,
                                &label,
                                format!("{} applied to side {}'s store before its store call #{k} ({:?})", m.describe(&authors), ["A", "B"][side], run.trace.get(fired).map(|c| c.kind)),
                                json!({"part": "topic/fault", "config_index": idx, "config": to_json(cfg), "side": side, "store_call": k, "mutation": m.describe(&authors)}),
                                rank,
                                &free_classes,
                            );
                        },
                    );
                    acc.absorb(&st);
                    acc.count("topic_fault_executions", st.executions);
                }
            }
        }
    });
    rep.transitions += acc.steps;
    rep.set("topic_log_sync_counters", json!(acc.counters));
    acc.into_report(rep, &format!("TopicLogSync + live mode: fault-free (deviations<={dev}) + one mutation before store call k (default schedule)"), dev);
}

pub fn run(mut rep: Report) -> i32 {
    let thorough = rep.thorough();
    let w = World::new();
    let heights = |a: usize, l: LogIdT, with_unlisted: bool| -> Vec<SlotCfg> {
        let mut sides = vec![SlotSide::Listed(None, false), SlotSide::Listed(Some(0), false), SlotSide::Listed(Some(1), false), SlotSide::Listed(Some(2), false)];
        if with_unlisted {
            sides.insert(0, SlotSide::Unlisted);
        }
        let mut v = vec![];
        for &sa in &sides {
            for &sb in &sides {
                v.push(SlotCfg { a, l, p: None, side: [sa, sb] });
            }
        }
        v
    };
    let few = |a: usize, l: LogIdT| -> Vec<SlotCfg> {
        use SlotSide::*;
        [[Unlisted, Unlisted], [Listed(Some(1), false), Listed(Some(1), false)], [Listed(Some(2), false), Listed(Some(0), false)], [Listed(None, false), Listed(Some(1), false)]]
            .into_iter()
            .map(|side| SlotCfg { a, l, p: None, side })
            .collect()
    };
    // keep only configurations without "author with empty list" variants for the fault parts
    let strip = |v: Vec<Config>| -> Vec<Config> { v.into_iter().filter(|c| c.empty_list.iter().all(|s| s.iter().all(|b| !*b))).collect() };
    let (configs, topic_configs, dev_free, dev_fault) = if thorough {
        (
            strip(product(&[heights(0, 0, true), heights(0, 1, false), few(1, 0)])),
            strip(product(&[heights(0, 0, false), few(0, 1), few(1, 0)])),
            2,
            1,
        )
    } else {
        (strip(product(&[heights(0, 0, true), few(0, 1), few(1, 0)])), strip(product(&[heights(0, 0, false), few(1, 0)])), 1, 0)
    };
    rep.rule = "configuration = per (author, log) slot the heights {none,0,1,2} of both sides (chains of length 4); mutation = prune(until) for every until, delete of every stored operation, insert of the next operation, insert of a prune-flagged next operation + prune, applied to one side's store before its store call k for every k of the fault-free run; non-trivial = mutation that lands after the side read its heights and before it read the entries of the mutated log".into();
    rep.set("configurations", json!({"log_sync": configs.len(), "topic_log_sync": topic_configs.len()}));
    let t0 = Instant::now();
    let wall = t0 + Duration::from_secs(if thorough { 420 } else { 28 });
    let configs = crate::c19::spread(configs);
    let topic_configs = crate::c19::spread(topic_configs);
    log_sync_parts(&mut rep, &w, &configs, dev_free, dev_fault, wall);
    let wall = t0 + Duration::from_secs(if thorough { 560 } else { 40 });
    rep.set("log_sync_wall_s", json!(t0.elapsed().as_secs_f64()));
    let t1 = std::time::Instant::now();
    topic_part(&mut rep, &w, &topic_configs, dev_free.min(1), wall);
    rep.set("topic_log_sync_wall_s", json!(t1.elapsed().as_secs_f64()));
    rep.assume("a concurrent writer is modelled as one committed mutation between two store calls of the session (MemStore, store calls are atomic)");
    rep.assume("prune-flagged insertions are only generated where the other side is not ahead (no forks)");
    rep.assume("a session that does not complete (hang or error) after a concurrent change is reported as a violation of 'sends exactly one Done'");
    rep.assume("in the TopicLogSync part side A is asked to close as soon as it reaches live mode; no live operations are published");
    rep.finish()
}
