//! C21 Sync sessions terminate for any data volume and transport buffer size.
//!
//! E-TASK: two real `LogSync::run` futures joined by exact-capacity pipes (`Cap::Bounded(c)`,
//! c = 0 is a rendezvous).  Grid: capacity x operations only A holds x operations only B holds x
//! 1 or 2 authors; every scheduler / `select!` start-branch choice vector within the deviation
//! bound.  Oracle: E-TASK deadlock detection (no task woken, not all finished) or a step horizon
//! = the session does not terminate; otherwise both sides must return Ok.
use std::collections::BTreeMap;
use std::time::{Duration, Instant};

use explorer::task::End;
use explorer::{dfs, json, Chooser, Report};
use p2panda_sync::protocols::Logs;
use refmodel::MemStore;

use crate::fixtures::{author, fill, make_chain, Cap, LogIdT, Op};
use crate::par::{par_for, Acc};
use crate::session::{run_pair, sym, Outcome};

#[derive(Clone, Copy, Debug, Hash, PartialEq, Eq)]
struct Grid {
    c: usize,
    na: usize,
    nb: usize,
    authors: usize,
}

/// A holds `na` operations B lacks and vice versa.  With one author: author0/log0 (A) and
/// author0/log1 (B).  With two authors the operations are split over author0 and author1 (same
/// logs), so the send loop returns to its `select!` between the two authors.
fn build(chains: &BTreeMap<(usize, LogIdT), Vec<Op>>, g: &Grid) -> ([MemStore; 2], [Logs<LogIdT>; 2]) {
    let stores = [MemStore::new(), MemStore::new()];
    let mut logs: Logs<LogIdT> = BTreeMap::new();
    for a in 0..g.authors {
        logs.insert(author(a), vec![0, 1]);
    }
    let split = |n: usize, a: usize| if g.authors == 1 { n } else if a == 0 { n.div_ceil(2) } else { n / 2 };
    for a in 0..g.authors {
        fill(&stores[0], &chains[&(a, 0)][..split(g.na, a)]);
        fill(&stores[1], &chains[&(a, 1)][..split(g.nb, a)]);
    }
    (stores, [logs.clone(), logs])
}

/// Explore every grid point with the given deviation bound.
fn explore(chains: &BTreeMap<(usize, LogIdT), Vec<Op>>, grid: &[(usize, Grid)], max_dev: usize, threads: usize, wall: Instant) -> Acc {
    par_for(grid, threads, wall, |_, (idx, g), acc: &mut Acc| {
        let idx = *idx;
        let mut dead = 0u64;
        let st = dfs(
            &crate::session::dfs_cfg_n(max_dev, wall, 300_000),
            |ch: &Chooser| {
                let (stores, logs) = build(&chains, g);
                run_pair(ch, stores, logs, Cap::Bounded(g.c), 3_000)
            },
            |ch, run| {
                acc.steps += run.steps;
                let rank = (g.c as u64, (((g.na + g.nb) * 4 + g.authors) * 100_000 + idx) as u64, ch.deviations() as u64 * 1000 + ch.vector().len() as u64);
                let ctx = || {
                    format!(
                        "capacity {}, A holds {} operation(s) B lacks, B holds {} A lacks, {} author(s); A wrote {:?}, B wrote {:?}; schedule [{}]",
                        g.c,
                        g.na,
                        g.nb,
                        g.authors,
                        run.wire[0].iter().map(sym).collect::<Vec<_>>(),
                        run.wire[1].iter().map(sym).collect::<Vec<_>>(),
                        ch.describe()
                    )
                };
                let replay = || json!({"part": "grid", "capacity": g.c, "ops_a": g.na, "ops_b": g.nb, "authors": g.authors, "vector": ch.vector()});
                acc.outcome(&(format!("{:?}", run.end), &run.outcome, g.c.min(1)));
                if let Some(p) = &run.panic {
                    if p.starts_with(crate::session::SPIN) {
                        acc.violation("livelock/sync-loop-spins", rank, || format!("the sync loop spins without yielding ({p}); {}", ctx()), replay);
                    } else {
                        acc.violation("panic", rank, || format!("p2panda code panicked: {p}; {}", ctx()), replay);
                    }
                    return;
                }
                match &run.end {
                    End::AllDone => {
                        for i in 0..2 {
                            if let Outcome::Err(e) = &run.outcome[i] {
                                acc.violation(&format!("session-failed/{e}"), rank, || format!("side {} returned {e}; {}", ["A", "B"][i], ctx()), replay);
                            }
                        }
                    }
                    End::Deadlock(tasks) => {
                        dead += 1;
                        let state = |i: usize| {
                            if !tasks.iter().any(|t| t == ["A", "B"][i]) {
                                "finished"
                            } else if run.pipe[i].tx_parked {
                                "sending"
                            } else if run.pipe[1 - i].rx_parked {
                                "receiving"
                            } else {
                                "other"
                            }
                        };
                        let (sa, sb) = (state(0), state(1));
                        let shape = if sa == "sending" && sb == "sending" { "both-blocked-sending".to_string() } else { format!("A-{sa}-B-{sb}") };
                        let class = if g.c == 0 {
                            "capacity-0"
                        } else if shape == "both-blocked-sending" && g.na >= g.c && g.nb >= g.c {
                            // the recorded finding: each side has at least `c` operations to send
                            "volume-exceeds-capacity"
                        } else if shape == "both-blocked-sending" {
                            // both sides block sending although one of them has fewer operations
                            // to send than the transport holds: not the recorded finding
                            "volume-below-capacity"
                        } else {
                            "buffered"
                        };
                        acc.violation(
                            &format!("deadlock/{shape}/{class}"),
                            rank,
                            || format!("session never terminates: tasks {tasks:?} parked with no wake-up pending (A {sa}, B {sb}; {} item(s) queued A->B, {} queued B->A); {}", run.pipe[0].queued, run.pipe[1].queued, ctx()),
                            replay,
                        );
                        // per-capacity table of the smallest deadlocking volume
                        acc.violation(
                            &format!("~table/c{}/authors{}", g.c, g.authors),
                            rank,
                            || format!("{}+{}", g.na, g.nb),
                            || json!({"ops_a": g.na, "ops_b": g.nb}),
                        );
                    }
                    End::Horizon => {
                        acc.violation("livelock/step-horizon", rank, || format!("3000 scheduler steps without termination; {}", ctx()), replay);
                    }
                }
            },
        );
        acc.absorb(&st);
        acc.state(&g);
        if g.na > 0 && g.nb > 0 {
            acc.nontrivial(&g);
        }
        acc.count(&format!("deadlocking_executions/c{}", g.c), dead);
        acc.count(&format!("executions/c{}", g.c), st.executions);
        if dead == 0 && g.na > 0 && g.nb > 0 {
            acc.sample(idx as u64, || json!({"capacity": g.c, "ops_a": g.na, "ops_b": g.nb, "authors": g.authors, "result": "all explored schedules complete"}));
        }
    })
}

pub fn run(mut rep: Report) -> i32 {
    let thorough = rep.thorough();
    let max_n = if thorough { 10 } else { 5 };
    let max_dev = if thorough { 3 } else { 2 };
    let caps = [0usize, 1, 2, 4, 8];
    // thorough only: one larger capacity with volumes up to 17, deviations <= 2
    let (big_c, big_n, big_dev) = (16usize, 17usize, 2usize);
    let mut chains = BTreeMap::new();
    for a in 0..2 {
        for l in 0..2u64 {
            chains.insert((a, l), make_chain(a, l, if thorough { big_n } else { max_n }, None));
        }
    }
    let mut grid = vec![];
    for &c in &caps {
        for authors in 1..=2 {
            for na in 0..=max_n {
                for nb in 0..=max_n {
                    grid.push(Grid { c, na, nb, authors });
                }
            }
        }
    }
    let mut big = vec![];
    if thorough {
        for authors in 1..=2 {
            for na in 0..=big_n {
                for nb in 0..=big_n {
                    big.push(Grid { c: big_c, na, nb, authors });
                }
            }
        }
    }
    rep.rule = format!(
        "grid capacity {{0,1,2,4,8}} x operations only A holds 0..={max_n} x operations only B holds 0..={max_n} x 1-2 authors, all scheduler and select! start-branch choices with <= {max_dev} deviations{}; non-trivial = grid point where both sides have something to send",
        if thorough { format!("; plus capacity {big_c} x 0..={big_n} x 0..={big_n} x 1-2 authors with <= {big_dev} deviations") } else { String::new() }
    );
    let start = Instant::now();
    let budget = if thorough { 560.0 } else { 40.0 };
    let grid_len = grid.len() + big.len();
    let grid = crate::c19::spread(grid);
    let big = crate::c19::spread(big.into_iter().collect::<Vec<_>>());
    // indices of the second grid continue after the first one (ranks stay unique)
    let big: Vec<(usize, Grid)> = big.into_iter().map(|(i, g)| (i + grid.len(), g)).collect();
    let threads = rep.args.threads;
    let mut acc = explore(&chains, &grid, max_dev, threads, start + Duration::from_secs_f64(budget * if thorough { 0.6 } else { 1.0 }));
    let mut acc_big = explore(&chains, &big, big_dev, threads, start + Duration::from_secs_f64(budget));
    rep.transitions += acc.steps + acc_big.steps;
    // Pull the table entries out of the violation maps and attach them to the deadlock findings.
    let mut table: BTreeMap<String, String> = BTreeMap::new();
    for a in [&mut acc, &mut acc_big] {
        for (k, v) in a.viol.iter().filter(|(k, _)| k.starts_with("~table/")) {
            table.insert(k.trim_start_matches("~table/").to_string(), v.1.clone());
        }
        a.viol.retain(|k, _| !k.starts_with("~table/"));
    }
    let order = |k: &String| k.trim_start_matches('c').split('/').next().and_then(|x| x.parse::<usize>().ok()).unwrap_or(0);
    let mut rows: Vec<(&String, &String)> = table.iter().collect();
    rows.sort_by_key(|(k, _)| (order(k), (*k).clone()));
    let table_txt = rows.iter().map(|(k, v)| format!("{k}: {v}")).collect::<Vec<_>>().join(", ");
    for a in [&mut acc, &mut acc_big] {
        for (k, v) in a.viol.iter_mut() {
            if k.starts_with("deadlock/") {
                v.1 = format!("{} | smallest deadlocking volume (ops only on A + ops only on B) per capacity/authors: {table_txt}", v.1);
            }
        }
    }
    rep.set("smallest_deadlocking_volume", json!(table));
    let mut counters = acc.counters.clone();
    counters.extend(acc_big.counters.clone());
    rep.set("per_capacity", json!(counters));
    rep.set("grid_points", json!(grid_len));
    acc.into_report(&mut rep, &format!("bounded transport grid capacities {{0,1,2,4,8}}, deviations<={max_dev}"), max_dev);
    if thorough {
        acc_big.into_report(&mut rep, &format!("bounded transport grid capacity {big_c}, deviations<={big_dev}"), big_dev);
    }
    rep.assume("capacity c: poll_ready is Pending while c items are queued; c = 0: an item is accepted only while the receiver task is parked in poll_next and has not started sending since");
    rep.assume("volumes above the grid and capacities other than {0,1,2,4,8} (thorough: and 16) are not explored; the property is unbounded in both");
    rep.assume("MemStore stands in for SqliteStore (store calls complete without yielding)");
    rep.finish()
}
