//! Reusable fixtures for protocol checks on E-TASK (no runtime, single thread):
//!
//! * `duplex(cap)` — two in-memory pipes implementing futures `Sink`/`Stream` with an *exact*
//!   capacity (`Cap::Unbounded`, `Cap::Bounded(c)`; `Bounded(0)` is a rendezvous) and correct
//!   waker handling, plus a monitor log of everything that was written;
//! * `ScriptStream` / `ScriptSink` — a scripted remote peer (fixed items, then end of stream;
//!   a sink that fails at a chosen operation);
//! * deterministic signing keys, honestly signed operation chains, `Ext` header extensions with a
//!   log id and a prune flag, helpers to fill a `MemStore`;
//! * `FaultStore` — a store wrapper that applies one concurrent mutation before store call k.
#![allow(dead_code)]
use std::cell::RefCell;
use std::collections::{BTreeMap, VecDeque};
use std::pin::Pin;
use std::rc::Rc;
use std::sync::{Arc, Mutex};
use std::task::{Context, Poll, Waker};

use futures_util::{Sink, Stream};
use p2panda_core::{Body, Hash, Header, Operation, SeqNum, SigningKey, VerifyingKey};
use p2panda_store::logs::LogStore;
use p2panda_store::topics::TopicStore;
use refmodel::{MemError, MemStore};
use serde::{Deserialize, Serialize};

// ---------------------------------------------------------------------------------------------
// Pipes
// ---------------------------------------------------------------------------------------------

#[derive(Clone, Copy, Debug, PartialEq, Eq, Hash, PartialOrd, Ord)]
pub enum Cap {
    Unbounded,
    /// At most `c` items queued; `poll_ready` is `Pending` while `c` items are queued.
    /// `Bounded(0)`: rendezvous — an item is accepted only while the receiver is parked in
    /// `poll_next` (it then sits in the hand-over slot until the receiver's next poll).
    Bounded(usize),
}

#[derive(Debug, Clone, PartialEq, Eq)]
pub enum PipeError {
    Closed,
    ReceiverGone,
    Injected(&'static str),
}

pub struct PipeState<M> {
    pub cap: Cap,
    pub queue: VecDeque<M>,
    /// Every item accepted by `start_send`, in order (the sink monitor).
    pub log: Vec<M>,
    pub closed: bool,
    pub rx_dropped: bool,
    pub sent_after_close: usize,
    rx_waker: Option<Waker>,
    tx_waker: Option<Waker>,
    /// The receiver's last `poll_next` returned `Pending` and its task has not touched its own
    /// sink since (so it is really waiting for input).
    pub rx_parked: bool,
    /// The sender's last `poll_ready` returned `Pending`.
    pub tx_parked: bool,
    pub max_queued: usize,
}

impl<M> PipeState<M> {
    fn new(cap: Cap) -> Self {
        PipeState {
            cap,
            queue: VecDeque::new(),
            log: Vec::new(),
            closed: false,
            rx_dropped: false,
            sent_after_close: 0,
            rx_waker: None,
            tx_waker: None,
            rx_parked: false,
            tx_parked: false,
            max_queued: 0,
        }
    }
    fn wake_rx(&mut self) {
        if let Some(w) = self.rx_waker.take() {
            w.wake();
        }
    }
    fn wake_tx(&mut self) {
        if let Some(w) = self.tx_waker.take() {
            w.wake();
        }
    }
    fn has_room(&self) -> bool {
        match self.cap {
            Cap::Unbounded => true,
            Cap::Bounded(0) => self.rx_parked && self.queue.is_empty(),
            Cap::Bounded(c) => self.queue.len() < c,
        }
    }
}

pub type Shared<M> = Rc<RefCell<PipeState<M>>>;

pub struct PipeTx<M> {
    pub st: Shared<M>,
    /// State of the pipe the *same task* receives on (to un-park it when the task starts sending).
    own_rx: Option<Shared<M>>,
}

pub struct PipeRx<M> {
    pub st: Shared<M>,
}

pub fn pipe<M>(cap: Cap) -> (PipeTx<M>, PipeRx<M>) {
    let st = Rc::new(RefCell::new(PipeState::new(cap)));
    (PipeTx { st: st.clone(), own_rx: None }, PipeRx { st })
}

/// Two pipes joined into two endpoints: `(a_tx, a_rx)` and `(b_tx, b_rx)`; what is written to
/// `a_tx` is read from `b_rx` and vice versa.
pub fn duplex<M>(cap: Cap) -> ((PipeTx<M>, PipeRx<M>), (PipeTx<M>, PipeRx<M>)) {
    let (mut a_tx, b_rx) = pipe(cap);
    let (mut b_tx, a_rx) = pipe(cap);
    a_tx.own_rx = Some(a_rx.st.clone());
    b_tx.own_rx = Some(b_rx.st.clone());
    ((a_tx, a_rx), (b_tx, b_rx))
}

impl<M> PipeTx<M> {
    fn touching_sink(&self) {
        if let Some(r) = &self.own_rx {
            r.borrow_mut().rx_parked = false;
        }
    }
}

impl<M: Clone> Sink<M> for PipeTx<M> {
    type Error = PipeError;

    fn poll_ready(self: Pin<&mut Self>, cx: &mut Context<'_>) -> Poll<Result<(), PipeError>> {
        self.touching_sink();
        let mut s = self.st.borrow_mut();
        if s.closed {
            return Poll::Ready(Err(PipeError::Closed));
        }
        if s.rx_dropped {
            return Poll::Ready(Err(PipeError::ReceiverGone));
        }
        if s.has_room() {
            s.tx_parked = false;
            Poll::Ready(Ok(()))
        } else {
            s.tx_parked = true;
            s.tx_waker = Some(cx.waker().clone());
            Poll::Pending
        }
    }

    fn start_send(self: Pin<&mut Self>, item: M) -> Result<(), PipeError> {
        self.touching_sink();
        let mut s = self.st.borrow_mut();
        if s.closed {
            s.sent_after_close += 1;
            return Err(PipeError::Closed);
        }
        if s.rx_dropped {
            return Err(PipeError::ReceiverGone);
        }
        s.log.push(item.clone());
        s.queue.push_back(item);
        s.max_queued = s.max_queued.max(s.queue.len());
        s.wake_rx();
        Ok(())
    }

    fn poll_flush(self: Pin<&mut Self>, _cx: &mut Context<'_>) -> Poll<Result<(), PipeError>> {
        Poll::Ready(Ok(()))
    }

    fn poll_close(self: Pin<&mut Self>, _cx: &mut Context<'_>) -> Poll<Result<(), PipeError>> {
        let mut s = self.st.borrow_mut();
        s.closed = true;
        s.wake_rx();
        Poll::Ready(Ok(()))
    }
}

impl<M> Drop for PipeTx<M> {
    fn drop(&mut self) {
        let mut s = self.st.borrow_mut();
        s.closed = true;
        s.wake_rx();
    }
}

impl<M> Stream for PipeRx<M> {
    type Item = Result<M, PipeError>;

    fn poll_next(self: Pin<&mut Self>, cx: &mut Context<'_>) -> Poll<Option<Self::Item>> {
        let mut s = self.st.borrow_mut();
        if let Some(m) = s.queue.pop_front() {
            s.rx_parked = false;
            s.wake_tx();
            return Poll::Ready(Some(Ok(m)));
        }
        if s.closed {
            return Poll::Ready(None);
        }
        s.rx_parked = true;
        s.rx_waker = Some(cx.waker().clone());
        if s.cap == Cap::Bounded(0) {
            // a rendezvous sender may proceed now
            s.wake_tx();
        }
        Poll::Pending
    }
}

impl<M> Drop for PipeRx<M> {
    fn drop(&mut self) {
        let mut s = self.st.borrow_mut();
        s.rx_dropped = true;
        s.rx_parked = false;
        s.wake_tx();
    }
}

// ---------------------------------------------------------------------------------------------
// Scripted peer
// ---------------------------------------------------------------------------------------------

/// Yields the scripted items, then end of stream (the peer closed).  All items are available at
/// once (a misbehaving peer need not wait for our messages).
pub struct ScriptStream<M> {
    pub items: VecDeque<Result<M, String>>,
    pub polled_after_end: u32,
}

impl<M> ScriptStream<M> {
    pub fn new(items: Vec<Result<M, String>>) -> Self {
        ScriptStream { items: items.into(), polled_after_end: 0 }
    }
}

impl<M: Unpin> Stream for ScriptStream<M> {
    type Item = Result<M, String>;
    fn poll_next(mut self: Pin<&mut Self>, _cx: &mut Context<'_>) -> Poll<Option<Self::Item>> {
        match self.items.pop_front() {
            Some(i) => Poll::Ready(Some(i)),
            None => {
                self.polled_after_end += 1;
                Poll::Ready(None)
            }
        }
    }
}

#[derive(Clone, Copy, Debug, PartialEq, Eq, Hash)]
pub enum SinkFault {
    None,
    /// `poll_ready` for item number k fails.
    Ready(usize),
    /// `start_send` of item number k fails.
    Start(usize),
    /// the first `poll_flush` after item number k was accepted fails.
    Flush(usize),
}

/// Records what is written; optionally fails at one operation.
pub struct ScriptSink<M> {
    pub log: Vec<M>,
    pub fault: SinkFault,
    pub fault_hit: bool,
    pub closed: bool,
}

impl<M> ScriptSink<M> {
    pub fn new(fault: SinkFault) -> Self {
        ScriptSink { log: vec![], fault, fault_hit: false, closed: false }
    }
}

impl<M: Unpin> Sink<M> for ScriptSink<M> {
    type Error = PipeError;
    fn poll_ready(mut self: Pin<&mut Self>, _cx: &mut Context<'_>) -> Poll<Result<(), PipeError>> {
        if self.fault == SinkFault::Ready(self.log.len()) {
            self.fault_hit = true;
            return Poll::Ready(Err(PipeError::Injected("poll_ready")));
        }
        Poll::Ready(Ok(()))
    }
    fn start_send(mut self: Pin<&mut Self>, item: M) -> Result<(), PipeError> {
        if self.fault == SinkFault::Start(self.log.len()) {
            self.fault_hit = true;
            return Err(PipeError::Injected("start_send"));
        }
        self.log.push(item);
        Ok(())
    }
    fn poll_flush(mut self: Pin<&mut Self>, _cx: &mut Context<'_>) -> Poll<Result<(), PipeError>> {
        if let SinkFault::Flush(k) = self.fault {
            if !self.fault_hit && self.log.len() == k + 1 {
                self.fault_hit = true;
                return Poll::Ready(Err(PipeError::Injected("poll_flush")));
            }
        }
        Poll::Ready(Ok(()))
    }
    fn poll_close(mut self: Pin<&mut Self>, _cx: &mut Context<'_>) -> Poll<Result<(), PipeError>> {
        self.closed = true;
        Poll::Ready(Ok(()))
    }
}

// ---------------------------------------------------------------------------------------------
// Operations
// ---------------------------------------------------------------------------------------------

pub type LogIdT = u64;

/// Header extensions used by the harness: the log the operation belongs to and the prune flag.
#[derive(Clone, Debug, PartialEq, Eq, Hash, Serialize, Deserialize)]
pub struct Ext {
    pub log: LogIdT,
    pub prune: bool,
}

pub type Op = Operation<Ext>;

pub const TOPIC: [u8; 32] = [7; 32];

/// Deterministic signing key of author number `i`.
pub fn signing_key(i: usize) -> SigningKey {
    let mut seed = [0u8; 32];
    for (k, b) in seed.iter_mut().enumerate() {
        *b = (i as u8).wrapping_mul(37).wrapping_add(k as u8).wrapping_add(1);
    }
    SigningKey::from_bytes(&seed)
}

pub fn author(i: usize) -> VerifyingKey {
    signing_key(i).verifying_key()
}

pub fn make_op(sk: &SigningKey, log: LogIdT, seq: SeqNum, backlink: Option<Hash>, prune: bool, body: &[u8]) -> Op {
    let body = Body::new(body);
    let mut header = Header::<Ext> {
        version: 1,
        verifying_key: sk.verifying_key(),
        signature: None,
        payload_size: body.size(),
        payload_hash: if body.size() == 0 { None } else { Some(body.hash()) },
        seq_num: seq,
        backlink,
        extensions: Ext { log, prune },
    };
    header.sign(sk);
    Operation {
        hash: header.hash(),
        header,
        body: if body.size() == 0 { None } else { Some(body) },
    }
}

/// An honestly signed chain `seq 0..len` of author `a` in log `log`; the operation at
/// `prune_at` (if any) carries the prune flag.  Every third operation has no body.
pub fn make_chain(a: usize, log: LogIdT, len: usize, prune_at: Option<SeqNum>) -> Vec<Op> {
    let sk = signing_key(a);
    let mut out: Vec<Op> = Vec::with_capacity(len);
    for seq in 0..len as u32 {
        let body = if seq % 3 == 2 { Vec::new() } else { format!("a{a}-l{log}-s{seq}").into_bytes() };
        let backlink = out.last().map(|o| o.hash);
        out.push(make_op(&sk, log, seq, backlink, prune_at == Some(seq), &body));
    }
    out
}

/// Put `ops` into the store (committed state, no validation: the harness builds honest chains).
pub fn fill(store: &MemStore, ops: &[Op]) {
    for op in ops {
        store.put(op, &op.header.extensions.log);
    }
}

/// Stored operations of (author, log) by ascending seq, read from the committed state.
pub fn stored(store: &MemStore, a: &VerifyingKey, log: LogIdT) -> Vec<(SeqNum, String)> {
    let l = p2panda_core::cbor::encode_cbor(&log).unwrap();
    let a = a.to_string();
    let mut v: Vec<(SeqNum, String)> = store
        .dump()
        .ops
        .iter()
        .filter(|(_, r)| r.author == a && r.log_id == l)
        .map(|(h, r)| (r.seq_num, h.clone()))
        .collect();
    v.sort();
    v
}

pub fn height(store: &MemStore, a: &VerifyingKey, log: LogIdT) -> Option<SeqNum> {
    stored(store, a, log).last().map(|x| x.0)
}

// ---------------------------------------------------------------------------------------------
// Fault wrapper around the store
// ---------------------------------------------------------------------------------------------

#[derive(Clone, Debug)]
pub enum Mutation {
    /// Remove all entries of (author, log) with seq < until.
    Prune { author: VerifyingKey, log: LogIdT, until: SeqNum },
    /// Remove one operation.
    Delete { hash: Hash, author: VerifyingKey, log: LogIdT, seq: SeqNum },
    /// Append the next operation of the chain.
    Insert { op: Box<Op> },
    /// Ingest of a prune-flagged next operation: insert it and remove everything before it.
    InsertAndPrune { op: Box<Op> },
}

impl Mutation {
    pub fn apply(&self, store: &MemStore) {
        match self {
            Mutation::Prune { author, log, until } => {
                store.prune_direct(author, log, *until);
            }
            Mutation::Delete { hash, .. } => {
                let k = hash.to_hex();
                store.mutate_committed(|d| {
                    d.ops.remove(&k);
                });
            }
            Mutation::Insert { op } => store.put(op.as_ref(), &op.header.extensions.log),
            Mutation::InsertAndPrune { op } => {
                store.put(op.as_ref(), &op.header.extensions.log);
                store.prune_direct(&op.header.verifying_key, &op.header.extensions.log, op.header.seq_num);
            }
        }
    }
    /// "pruned" if entries are removed, "grown" otherwise.
    pub fn effect(&self) -> &'static str {
        match self {
            Mutation::Insert { .. } => "grown",
            _ => "pruned",
        }
    }
    pub fn describe(&self, authors: &[VerifyingKey]) -> String {
        let an = |a: &VerifyingKey| authors.iter().position(|x| x == a).map(|i| format!("author{i}")).unwrap_or_else(|| a.to_hex());
        match self {
            Mutation::Prune { author, log, until } => format!("prune({}, log {log}, until {until})", an(author)),
            Mutation::Delete { author, log, seq, .. } => format!("delete({}, log {log}, seq {seq})", an(author)),
            Mutation::Insert { op } => format!("insert({}, log {}, seq {})", an(&op.header.verifying_key), op.header.extensions.log, op.header.seq_num),
            Mutation::InsertAndPrune { op } => format!("insert+prune({}, log {}, prune-flagged seq {})", an(&op.header.verifying_key), op.header.extensions.log, op.header.seq_num),
        }
    }
}

#[derive(Clone, Copy, Debug, PartialEq, Eq, Hash)]
pub enum CallKind {
    Resolve,
    Heights,
    Size,
    Entries,
    Other,
}

#[derive(Clone, Debug, PartialEq, Eq)]
pub struct Call {
    pub kind: CallKind,
    pub author: Option<VerifyingKey>,
    pub log: Option<LogIdT>,
}

#[derive(Default)]
pub struct FaultCtl {
    pub trace: Vec<Call>,
    pub plan: Option<(usize, Mutation)>,
    /// Set when the planned mutation was applied: index of the call it preceded.
    pub fired: Option<usize>,
}

/// Wraps a `MemStore`; before trait call number `k` (counted per wrapper, all clones share the
/// counter) the planned mutation is applied to the committed state.
#[derive(Clone)]
pub struct FaultStore {
    pub inner: MemStore,
    pub ctl: Arc<Mutex<FaultCtl>>,
}

impl FaultStore {
    pub fn new(inner: MemStore, plan: Option<(usize, Mutation)>) -> Self {
        FaultStore { inner, ctl: Arc::new(Mutex::new(FaultCtl { trace: vec![], plan, fired: None })) }
    }
    fn enter(&self, kind: CallKind, author: Option<&VerifyingKey>, log: Option<&LogIdT>) {
        let mut c = self.ctl.lock().unwrap();
        let idx = c.trace.len();
        c.trace.push(Call { kind, author: author.copied(), log: log.copied() });
        if let Some((k, m)) = &c.plan {
            if *k == idx {
                m.apply(&self.inner);
                c.fired = Some(idx);
            }
        }
    }
    pub fn trace(&self) -> Vec<Call> {
        self.ctl.lock().unwrap().trace.clone()
    }
    pub fn fired(&self) -> Option<usize> {
        self.ctl.lock().unwrap().fired
    }
}

impl LogStore<Op, VerifyingKey, LogIdT, SeqNum, Hash> for FaultStore {
    type Error = MemError;

    async fn get_latest_entry(&self, author: &VerifyingKey, log_id: &LogIdT) -> Result<Option<Op>, MemError> {
        self.enter(CallKind::Other, Some(author), Some(log_id));
        self.inner.get_latest_entry(author, log_id).await
    }
    async fn get_latest_entry_tx(&self, author: &VerifyingKey, log_id: &LogIdT) -> Result<Option<Op>, MemError> {
        self.enter(CallKind::Other, Some(author), Some(log_id));
        self.inner.get_latest_entry_tx(author, log_id).await
    }
    async fn get_log_heights(&self, author: &VerifyingKey, logs: &[LogIdT]) -> Result<Option<BTreeMap<LogIdT, SeqNum>>, MemError> {
        self.enter(CallKind::Heights, Some(author), None);
        <MemStore as LogStore<Op, VerifyingKey, LogIdT, SeqNum, Hash>>::get_log_heights(&self.inner, author, logs).await
    }
    async fn get_log_size(&self, author: &VerifyingKey, log_id: &LogIdT, after: Option<SeqNum>, until: Option<SeqNum>) -> Result<Option<(u32, u32)>, MemError> {
        self.enter(CallKind::Size, Some(author), Some(log_id));
        <MemStore as LogStore<Op, VerifyingKey, LogIdT, SeqNum, Hash>>::get_log_size(&self.inner, author, log_id, after, until).await
    }
    async fn get_log_entries(&self, author: &VerifyingKey, log_id: &LogIdT, after: Option<SeqNum>, until: Option<SeqNum>) -> Result<Option<Vec<(Op, Vec<u8>)>>, MemError> {
        self.enter(CallKind::Entries, Some(author), Some(log_id));
        self.inner.get_log_entries(author, log_id, after, until).await
    }
    async fn prune_entries(&self, author: &VerifyingKey, log_id: &LogIdT, until: &SeqNum) -> Result<u64, MemError> {
        self.enter(CallKind::Other, None, None);
        <MemStore as LogStore<Op, VerifyingKey, LogIdT, SeqNum, Hash>>::prune_entries(&self.inner, author, log_id, until).await
    }
}

impl TopicStore<[u8; 32], VerifyingKey, LogIdT> for FaultStore {
    type Error = MemError;
    async fn associate(&self, topic: &[u8; 32], author: &VerifyingKey, data_id: &LogIdT) -> Result<bool, MemError> {
        self.enter(CallKind::Other, None, None);
        self.inner.associate(topic, author, data_id).await
    }
    async fn remove(&self, topic: &[u8; 32], author: &VerifyingKey, data_id: &LogIdT) -> Result<bool, MemError> {
        self.enter(CallKind::Other, None, None);
        <MemStore as TopicStore<[u8; 32], VerifyingKey, LogIdT>>::remove(&self.inner, topic, author, data_id).await
    }
    async fn resolve(&self, topic: &[u8; 32]) -> Result<BTreeMap<VerifyingKey, Vec<LogIdT>>, MemError> {
        self.enter(CallKind::Resolve, None, None);
        self.inner.resolve(topic).await
    }
}
