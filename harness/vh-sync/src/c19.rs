//! C19 Log sync delivers exactly the missing operations.
//!
//! E-TASK: two real `LogSync::run` futures joined by unbounded harness pipes, stores = MemStore
//! filled with honestly signed chains.  Every enumerated replica pair × every scheduler /
//! `select!` start-branch choice vector within the deviation bound.  Oracle from the property
//! text: per side the announced operations (`OperationReceived`) = exactly the other side's
//! stored operations of the logs in the session with seq above the receiver's own height, once
//! each, ascending per log; after ingesting them with the real `ingest_operation` both sides hold
//! equal heights.
use std::collections::{BTreeMap, BTreeSet};
use std::time::{Duration, Instant};

use explorer::task::{block_on_quiescent, End};
use explorer::{dfs, json, Chooser, Report};
use p2panda_stream::ingest::ingest_operation;

use crate::fixtures::{height, Cap, LogIdT, Op, TOPIC};
use crate::par::{par_for, Acc};
use crate::replica::{template, describe, product, slot_options, to_json, Chains, Config, Replica, SlotCfg, SlotSide};
use crate::session::{run_pair, sym, Outcome, PairRun, Sym};

/// What side `rx` must be told about, given what `tx` stores and lists.
pub fn expected(chains: &Chains, rx: &Replica, tx: &Replica) -> BTreeMap<(usize, LogIdT), Vec<Op>> {
    let _ = chains;
    let mut out = BTreeMap::new();
    for (&(a, l), ops) in &tx.stored {
        if !tx.listed.contains(&(a, l)) {
            continue;
        }
        let own = if rx.listed.contains(&(a, l)) { rx.height(a, l) } else { None };
        let v: Vec<Op> = ops
            .iter()
            .filter(|o| match own {
                None => true,
                Some(h) => o.header.seq_num > h,
            })
            .cloned()
            .collect();
        if !v.is_empty() {
            out.insert((a, l), v);
        }
    }
    out
}

fn ingest(rep: &Replica, op: &Op) -> Result<bool, String> {
    match block_on_quiescent(
        ingest_operation(&rep.store, op, &op.header.extensions.log, &TOPIC, op.header.extensions.prune),
        10_000,
    ) {
        Ok(Ok(b)) => Ok(b),
        Ok(Err(e)) => Err(format!("{e}")),
        Err(e) => Err(format!("ingest did not complete: {e}")),
    }
}

/// The oracle for one execution.  Returns (violations, ops transferred).  `verified` caches the
/// received lists whose ingest + height comparison already passed for this configuration (the
/// ingest result is a function of the configuration and the received lists only).
fn oracle(
    chains: &Chains,
    cfg: &Config,
    reps: &[Replica; 2],
    run: &PairRun,
    verified: &std::cell::RefCell<BTreeSet<u64>>,
) -> (Vec<(String, String)>, [usize; 2]) {
    let mut v: Vec<(String, String)> = vec![];
    let name = ["A", "B"];
    if let Some(p) = &run.panic {
        if p.starts_with(crate::session::SPIN) {
            v.push(("session-did-not-complete/livelock".into(), format!("the sync loop spins without yielding ({p})")));
        } else {
            v.push(("panic".into(), format!("p2panda code panicked: {p}")));
        }
        return (v, [0, 0]);
    }
    match &run.end {
        End::AllDone => {}
        End::Deadlock(t) => {
            v.push(("session-did-not-complete/deadlock".into(), format!("tasks {t:?} parked forever on an unbounded transport")));
            return (v, [0, 0]);
        }
        End::Horizon => {
            v.push(("session-did-not-complete/livelock".into(), "step horizon reached".into()));
            return (v, [0, 0]);
        }
    }
    for i in 0..2 {
        if let Outcome::Err(e) = &run.outcome[i] {
            v.push((format!("session-failed/{e}"), format!("side {} returned error {e} between honest peers", name[i])));
        }
    }
    if !v.is_empty() {
        return (v, [0, 0]);
    }
    let mut transferred = [0usize; 2];
    for i in 0..2 {
        let (rx, tx) = (&reps[i], &reps[1 - i]);
        let want = expected(chains, rx, tx);
        let got = run.received(i);
        transferred[i] = got.len();
        // wire-level: operations written by the sender = operations announced by the receiver
        let wire_ops = run.wire[1 - i].iter().filter(|m| sym(m) == Sym::Operation).count();
        let mut seen: BTreeSet<String> = BTreeSet::new();
        let mut last_seq: BTreeMap<(usize, LogIdT), u32> = BTreeMap::new();
        let mut got_set: BTreeMap<(usize, LogIdT), Vec<u32>> = BTreeMap::new();
        for op in &got {
            let a = chains.author_index(&op.header.verifying_key);
            let l = op.header.extensions.log;
            let s = op.header.seq_num;
            if !seen.insert(op.hash.to_hex()) {
                v.push(("duplicate-operation".into(), format!("side {} was told twice about author{a}/log{l}/seq{s}", name[i])));
                continue;
            }
            if let Some(prev) = last_seq.get(&(a, l)) {
                if *prev >= s {
                    v.push(("out-of-log-order".into(), format!("side {} received author{a}/log{l}/seq{s} after seq{prev}", name[i])));
                }
            }
            last_seq.insert((a, l), s);
            got_set.entry((a, l)).or_default().push(s);
            let wanted = want.get(&(a, l)).is_some_and(|w| w.iter().any(|o| o.hash == op.hash));
            if !wanted {
                let own = if rx.listed.contains(&(a, l)) { rx.height(a, l) } else { None };
                let class = if own.is_some_and(|h| s <= h) {
                    "at-or-below-own-height"
                } else if !tx.stored.get(&(a, l)).is_some_and(|w| w.iter().any(|o| o.hash == op.hash)) {
                    "not-stored-by-sender"
                } else {
                    "outside-session-logs"
                };
                v.push((
                    format!("unexpected-operation/{class}"),
                    format!("side {} (own height {own:?}) received author{a}/log{l}/seq{s}", name[i]),
                ));
            }
        }
        for ((a, l), ops) in &want {
            for o in ops {
                if !seen.contains(&o.hash.to_hex()) {
                    v.push((
                        "missing-operation".into(),
                        format!(
                            "side {} never received author{a}/log{l}/seq{} which side {} stores above the receiver's height {:?}",
                            name[i],
                            o.header.seq_num,
                            name[1 - i],
                            rx.height(*a, *l)
                        ),
                    ));
                }
            }
        }
        if wire_ops != got.len() && v.is_empty() {
            v.push((
                "wire-differs-from-announced".into(),
                format!("side {} wrote {wire_ops} Operation messages, side {} announced {}", name[1 - i], name[i], got.len()),
            ));
        }
    }
    if !v.is_empty() {
        return (v, transferred);
    }
    // Ingest what was received with the real ingest_operation, then compare heights.
    let recv_key = explorer::h64(&[0usize, 1].map(|i| run.received(i).iter().map(|o| o.hash.to_hex()).collect::<Vec<_>>()));
    if verified.borrow().contains(&recv_key) {
        return (v, transferred);
    }
    for i in 0..2 {
        for op in run.received(i) {
            if let Err(e) = ingest(&reps[i], &op) {
                let a = chains.author_index(&op.header.verifying_key);
                v.push((
                    "heights-differ-after-ingest/ingest-rejected".into(),
                    format!("side {} cannot ingest received author{a}/log{}/seq{}: {e}", name[i], op.header.extensions.log, op.header.seq_num),
                ));
                return (v, transferred);
            }
        }
    }
    for s in &cfg.slots {
        let both_listed = s.side[0].listed() && s.side[1].listed();
        let any_listed = s.side[0].listed() || s.side[1].listed();
        let stray = s.side.iter().any(|x| matches!(x, SlotSide::UnlistedStored(_)));
        if both_listed || (any_listed && !stray) {
            let ha = height(&reps[0].store, &chains.authors[s.a], s.l);
            let hb = height(&reps[1].store, &chains.authors[s.a], s.l);
            if ha != hb {
                v.push((
                    "heights-differ-after-ingest".into(),
                    format!("author{}/log{}: height {ha:?} on A, {hb:?} on B after both ingested what they received", s.a, s.l),
                ));
            }
        }
    }
    if v.is_empty() {
        verified.borrow_mut().insert(recv_key);
    }
    (v, transferred)
}

struct Part {
    name: &'static str,
    /// Slot options whose product (plus empty-list variants) is the part's configuration set.
    options: Vec<Vec<SlotCfg>>,
    max_dev: usize,
    /// Share of the check's time budget (parts that finish early leave their time to later ones).
    weight: f64,
}

/// Visit order: a fixed stride permutation, so that a part cut short by the deadline has still
/// visited configurations from all over the product (reported as not exhaustive in that case).
pub fn spread<T>(items: Vec<T>) -> Vec<(usize, T)> {
    let n = items.len();
    let mut stride = (n as f64 * 0.618_033_988_75) as usize | 1;
    fn gcd(a: usize, b: usize) -> usize {
        if b == 0 { a } else { gcd(b, a % b) }
    }
    while n > 1 && gcd(stride, n) != 1 {
        stride += 2;
    }
    let mut slots: Vec<Option<T>> = items.into_iter().map(Some).collect();
    let mut out = Vec::with_capacity(n);
    let mut j = 0usize;
    for _ in 0..n {
        out.push((j, slots[j].take().expect("stride permutation visits every index once")));
        j = (j + stride) % n.max(1);
    }
    out
}

fn run_part(rep: &mut Report, chains: &Chains, part: &Part, wall: Instant) -> usize {
    let threads = rep.args.threads;
    let configs = spread(product(&part.options));
    let acc = par_for(&configs, threads, wall, |_, (idx, cfg), acc: &mut Acc| {
        let idx = *idx;
        let mut flowed = false;
        let mut sample: Option<explorer::Value> = None;
        let verified = std::cell::RefCell::new(BTreeSet::new());
        let tpl = [template(chains, cfg, 0), template(chains, cfg, 1)];
        let st = dfs(
            &crate::session::dfs_cfg(part.max_dev, wall),
            |ch: &Chooser| {
                let reps = [tpl[0].instantiate(), tpl[1].instantiate()];
                let run = run_pair(
                    ch,
                    [reps[0].store.clone(), reps[1].store.clone()],
                    [reps[0].logs.clone(), reps[1].logs.clone()],
                    Cap::Unbounded,
                    2_000,
                );
                let (v, n) = oracle(chains, cfg, &reps, &run, &verified);
                let recv: Option<Vec<Vec<String>>> = if n[0] > 0 && n[1] > 0 {
                    Some(
                        (0..2)
                            .map(|i| {
                                run.received(i)
                                    .iter()
                                    .map(|o| format!("author{}/log{}/seq{}", chains.author_index(&o.header.verifying_key), o.header.extensions.log, o.header.seq_num))
                                    .collect()
                            })
                            .collect(),
                    )
                } else {
                    None
                };
                (v, n, run.steps, run.wire.iter().map(|w| w.iter().map(sym).collect::<Vec<_>>()).collect::<Vec<_>>(), recv)
            },
            |ch, (v, n, steps, syms, recv)| {
                acc.steps += steps;
                if let Some(recv) = recv {
                    flowed = true;
                    if sample.is_none() {
                        sample = Some(json!({"part": part.name, "config": describe(cfg), "A_received": recv[0], "B_received": recv[1]}));
                    }
                }
                acc.outcome(&(syms, n));
                for (key, what) in v {
                    let vector = ch.vector();
                    acc.violation(
                        &key,
                        (ch.deviations() as u64, idx as u64, vector.len() as u64),
                        || format!("{what}. Configuration: {}. Schedule: {}", describe(cfg), ch.describe()),
                        || json!({"part": part.name, "config_index": idx, "config": to_json(cfg), "vector": vector}),
                    );
                }
            },
        );
        acc.absorb(&st);
        acc.state(&(part.name, idx));
        if flowed {
            acc.nontrivial(&cfg);
            acc.sample((idx as u64).wrapping_mul(2654435761) % 1_000_003, || sample.take().unwrap_or_default());
        }
    });
    rep.transitions += acc.steps;
    acc.into_report(rep, part.name, part.max_dev);
    configs.len()
}

/// Conformance part: every configuration once on two real SqliteStores (real sqlx pool, real tokio
/// runtime) against the MemStore run of the default schedule (see `sqlconf`).
fn run_sqlite_part(rep: &mut Report, chains: &Chains, name: &'static str, options: &[Vec<SlotCfg>], wall: Instant) -> usize {
    let threads = rep.args.threads;
    let configs = spread(product(options));
    let acc = par_for(&configs, threads, wall, |_, (idx, cfg), acc: &mut Acc| {
        thread_local! {
            static RT: tokio::runtime::Runtime = crate::sqlconf::rt();
        }
        let idx = *idx;
        acc.executions += 1;
        let mem = match crate::sqlconf::run_mem(chains, cfg) {
            Ok(t) => t,
            Err(e) => {
                // judged by the exploration parts; nothing to compare against
                acc.count("sqlite-conformance/reference-run-incomplete", 1);
                let _ = e;
                return;
            }
        };
        let sql = RT.with(|rt| crate::sqlconf::run_sqlite(rt, chains, cfg));
        let diffs = match sql {
            Ok(t) => crate::sqlconf::compare(chains, cfg, &mem, &t),
            Err(e) => vec![("sqlite-differs-from-memstore/session-did-not-complete".to_string(), format!("{e}. Configuration: {}", describe(cfg)))],
        };
        let n: usize = mem.received.iter().map(|r| r.len()).sum();
        acc.steps += (mem.wire[0].len() + mem.wire[1].len()) as u64;
        acc.state(&("sqlite", idx));
        acc.outcome(&("sqlite", mem.received.iter().map(|r| r.len()).collect::<Vec<_>>()));
        if n > 0 {
            acc.nontrivial(&("sqlite", cfg));
            acc.count("sqlite-conformance/configurations-with-transfer", 1);
        }
        for (key, what) in diffs {
            acc.violation(&key, (0, idx as u64, 0), || what.clone(), || json!({"part": name, "config_index": idx, "config": to_json(cfg)}));
        }
    });
    let n = acc.executions;
    let with_transfer = acc.counters.get("sqlite-conformance/configurations-with-transfer").copied().unwrap_or(0);
    rep.transitions += acc.steps;
    acc.into_report(rep, name, 0);
    rep.set("sqlite_conformance", json!({"configurations_replayed_on_SqliteStore": n, "with_operations_transferred": with_transfer}));
    configs.len()
}

pub fn run(mut rep: Report) -> i32 {
    let thorough = rep.thorough();
    let pp_all = [None, Some(1), Some(2)];
    let chains = Chains::new(2, 2, 3, &pp_all);
    let plain = |a, l| slot_options(a, l, 2, &[None], None);
    let full = |a, l| slot_options(a, l, 2, &pp_all, None);
    let listed = |a, l| -> Vec<SlotCfg> { plain(a, l).into_iter().filter(|s: &SlotCfg| s.side.iter().all(|x| x.listed())).collect() };
    // Representative states of a further slot: absent, equal, A ahead, B ahead, only A.
    let reps_a1: Vec<SlotCfg> = {
        use SlotSide::*;
        [
            [Unlisted, Unlisted],
            [Listed(Some(1), false), Listed(Some(1), false)],
            [Listed(Some(2), false), Listed(Some(0), false)],
            [Listed(None, false), Listed(Some(2), false)],
            [Listed(Some(1), false), Unlisted],
        ]
        .into_iter()
        .map(|side| SlotCfg { a: 1, l: 0, p: None, side })
        .collect()
    };
    let reps_a1_c = reps_a1.clone();
    let reps_a0l1: Vec<SlotCfg> = reps_a1.iter().map(|s| SlotCfg { a: 0, l: 1, ..s.clone() }).collect();
    let parts: Vec<Part> = if !thorough {
        vec![
            Part {
                name: "heights: author0 log0,log1 over {unlisted,empty,0,1,2}^2 x 5 author1 states, deviations<=1",
                options: vec![plain(0, 0), plain(0, 1), reps_a1.clone()],
                max_dev: 1,
                weight: 0.5,
            },
            Part {
                name: "pruned: author0 log0 with prune point {1,2} and pruned prefixes x 5 author0-log1 states x 5 author1 states, deviations<=1",
                options: vec![slot_options(0, 0, 2, &[Some(1), Some(2)], None), reps_a0l1, reps_a1.clone()],
                max_dev: 1,
                weight: 0.5,
            },
        ]
    } else {
        vec![
            Part {
                name: "deviations<=2: author0 log0 with prune points {none,1,2} and pruned prefixes x author0 log1 heights x 5 author1 states",
                options: vec![full(0, 0), plain(0, 1), reps_a1.clone()],
                max_dev: 2,
                weight: 0.3,
            },
            Part {
                name: "deviations<=2: author0 log0,log1 over {unlisted,empty,0,1,2}^2 x 5 author1 states",
                options: vec![plain(0, 0), plain(0, 1), reps_a1.clone()],
                max_dev: 2,
                weight: 0.1,
            },
            Part {
                name: "stored-but-unlisted: author0 log0 incl. 'stored seq 0..=1 but not in Logs' x author0 log1 heights x 5 author1 states, deviations<=1",
                options: vec![slot_options(0, 0, 2, &[None, Some(2)], Some(1)), plain(0, 1), reps_a1.clone()],
                max_dev: 1,
                weight: 0.05,
            },
            Part {
                name: "pruned: author0 log0,log1 with prune points {none,1,2} and pruned prefixes x 5 author1 states, deviations<=1",
                options: vec![full(0, 0), full(0, 1), reps_a1],
                max_dev: 1,
                weight: 0.2,
            },
            Part {
                name: "heights: 2 authors x 2 logs, every slot listed on both sides with heights {empty,0,1,2}^2 (65536 pairs), deviations<=1",
                options: vec![listed(0, 0), listed(0, 1), listed(1, 0), listed(1, 1)],
                max_dev: 1,
                weight: 0.25,
            },
            Part {
                name: "unlisted logs and authors: author0 log0,log1 and author1 log0 over {unlisted,empty,0,1,2}^2, deviations<=1",
                options: vec![plain(0, 0), plain(0, 1), plain(1, 0)],
                max_dev: 1,
                weight: 0.1,
            },
        ]
    };
    rep.rule = "replica pair = per (author, log) slot a signed chain seq 0..=2 (optionally with a prune-flagged operation) and per side {log not in Logs map, listed without entries, height 0/1/2, pruned prefix}; authors without listed log appear absent or with an empty log list; every scheduler and select!-start-branch choice vector within the deviation bound; non-trivial = pair for which operations were transferred in both directions".into();
    let start = Instant::now();
    let budget = if thorough { 560.0 } else { 40.0 };
    let mut total = 0usize;
    let mut cum = 0.0;
    for p in &parts {
        cum += p.weight;
        let deadline = start + Duration::from_secs_f64(budget * cum.min(1.0));
        total += run_part(&mut rep, &chains, p, deadline);
    }
    // binding to the real store: the same configurations once on SqliteStore
    let sql_deadline = Instant::now() + Duration::from_secs(if thorough { 150 } else { 15 });
    if thorough {
        total += run_sqlite_part(
            &mut rep,
            &chains,
            "sqlite-conformance: author0 log0 with prune points {none,1,2} and pruned prefixes x author0 log1 heights x 5 author1 states, default schedule on two real SqliteStores vs the reference store",
            &[full(0, 0), plain(0, 1), reps_a1_c.clone()],
            sql_deadline,
        );
    } else {
        total += run_sqlite_part(
            &mut rep,
            &chains,
            "sqlite-conformance: author0 log0 with prune points {none,1,2} and pruned prefixes x 5 author1 states, default schedule on two real SqliteStores vs the reference store",
            &[full(0, 0), reps_a1_c.clone()],
            sql_deadline,
        );
    }
    rep.set("configurations", json!(total));
    rep.assume("'shared logs' is read as the logs of the session: a side offers the logs of its own Logs map; a receiver's 'own height' is its store height for logs in its own Logs map and 'none' otherwise");
    rep.assume("schedules are explored on MemStore (refmodel), whose equivalence with SqliteStore is decided by C08/C09; in addition the sqlite-conformance part replays every configuration of its product once on two real SqliteStores and demands the transcript of the MemStore run (outcome, messages written, operations announced, ingest results, heights)");
    rep.assume("chains have length 3 and at most one prune point; the product 2 authors x 2 logs x heights {empty,0,1,2} per side is enumerated completely (thorough); unlisted logs, empty log lists and pruned prefixes (1.5e8 pairs as one product) are covered by the sub-products listed in parts");
    rep.assume("received operations are ingested with the operation's own prune flag; pruning itself (log_prune processor) is not applied, it does not change heights");
    rep.finish()
}
