//! One execution of two real `LogSync::run` futures on E-TASK, joined by harness pipes.
#![allow(dead_code)]
use std::cell::RefCell;

use explorer::task::{disown_select, End, Exec};
use explorer::{catch, Chooser};
use p2panda_core::{Hash, SeqNum, VerifyingKey};
use p2panda_store::logs::LogStore;
use p2panda_sync::protocols::{LogSync, LogSyncError, LogSyncEvent, LogSyncMessage, LogSyncMetrics, Logs};
use p2panda_sync::traits::Protocol;
use tokio::sync::broadcast;

use crate::fixtures::{duplex, Cap, Ext, LogIdT, Op};

pub type Msg = LogSyncMessage<LogIdT>;
pub type Evt = LogSyncEvent<Ext>;

/// Marker at the start of the panic message raised by the select guard.
pub const SPIN: &str = "SELECT-SPIN";

/// Own the `tokio::select!` start branch like `explorer::task::own_select`, with a guard against a
/// `loop { select! { .. else => {} } }` that spins inside a single poll (it would never return to
/// the executor and grow the choice log without bound): only the first 200 decisions of an
/// execution are drawn from the chooser (later ones take branch 0 unrecorded) and decision number
/// 5000 panics with a `SELECT-SPIN` message, which the caller reports as a livelock.
pub fn own_select_guarded(ch: &Chooser) {
    let ch = ch.clone();
    let mut n = 0u32;
    tokio::verif::set_select_hook(Some(Box::new(move |k| {
        n += 1;
        if n > 5000 {
            panic!("{SPIN}: more than 5000 select! iterations in one execution");
        }
        if n > 200 {
            return 0;
        }
        ch.choose(k as usize, "select") as u32
    })));
}

/// `DfsCfg` for one configuration: deviation bound, at most 20000 executions, and no execution
/// started after the check's deadline.
pub fn dfs_cfg(max_dev: usize, deadline: std::time::Instant) -> explorer::DfsCfg {
    dfs_cfg_n(max_dev, deadline, 20_000)
}

pub fn dfs_cfg_n(max_dev: usize, deadline: std::time::Instant, max_execs: u64) -> explorer::DfsCfg {
    explorer::DfsCfg {
        max_dev,
        max_execs,
        wall: deadline.saturating_duration_since(std::time::Instant::now()) + std::time::Duration::from_millis(200),
        threads: 1,
    }
}

/// Wire symbol of a message (for the C20 monitor).
#[derive(Clone, Copy, Debug, PartialEq, Eq, Hash, PartialOrd, Ord)]
pub enum Sym {
    Have,
    PreSync,
    Operation,
    Done,
}

pub fn sym(m: &Msg) -> Sym {
    match m {
        LogSyncMessage::Have(_) => Sym::Have,
        LogSyncMessage::PreSync { .. } => Sym::PreSync,
        LogSyncMessage::Operation(..) => Sym::Operation,
        LogSyncMessage::Done => Sym::Done,
    }
}

pub fn err_kind(e: &LogSyncError) -> String {
    let s = format!("{e:?}");
    s.split(['(', ' ', '{']).next().unwrap_or("").to_string()
}

#[derive(Debug, Clone, PartialEq, Eq, Hash)]
pub enum Outcome {
    Ok,
    Err(String),
    Unfinished,
}

pub struct PipeEnd {
    pub tx_parked: bool,
    pub rx_parked: bool,
    pub queued: usize,
    pub max_queued: usize,
}

pub struct PairRun {
    pub end: End,
    pub steps: u64,
    pub outcome: [Outcome; 2],
    pub metrics: [Option<LogSyncMetrics>; 2],
    /// Everything each side wrote to its sink.
    pub wire: [Vec<Msg>; 2],
    /// Events each side emitted.
    pub events: [Vec<Evt>; 2],
    /// State of the pipe each side *writes to* at the end.
    pub pipe: [PipeEnd; 2],
    pub panic: Option<String>,
}

impl PairRun {
    /// Operations announced to the application by side `i`.
    pub fn received(&self, i: usize) -> Vec<Op> {
        self.events[i]
            .iter()
            .filter_map(|e| match e {
                LogSyncEvent::OperationReceived { operation, .. } => Some((**operation).clone()),
                _ => None,
            })
            .collect()
    }
}

/// Run sides A (index 0) and B (index 1) to quiescence under the chooser (scheduler and
/// `select!` start-branch decisions are drawn from it).
pub fn run_pair<S>(ch: &Chooser, stores: [S; 2], logs: [Logs<LogIdT>; 2], cap: Cap, horizon: u64) -> PairRun
where
    S: LogStore<Op, VerifyingKey, LogIdT, SeqNum, Hash> + Clone + Send + 'static,
{
    let ((mut a_tx, mut a_rx), (mut b_tx, mut b_rx)) = duplex::<Msg>(cap);
    let st = [a_tx.st.clone(), b_tx.st.clone()];
    let (ev_a, mut evr_a) = broadcast::channel::<Evt>(64);
    let (ev_b, mut evr_b) = broadcast::channel::<Evt>(64);
    let [sa, sb] = stores;
    let [la, lb] = logs;
    let res_a: RefCell<Option<Result<LogSyncMetrics, LogSyncError>>> = RefCell::new(None);
    let res_b: RefCell<Option<Result<LogSyncMetrics, LogSyncError>>> = RefCell::new(None);
    let pa = LogSync::<LogIdT, Ext, S, Evt>::new(sa, la, ev_a.clone());
    let pb = LogSync::<LogIdT, Ext, S, Evt>::new(sb, lb, ev_b.clone());

    own_select_guarded(ch);
    let r = catch(|| {
        let mut ex = Exec::new();
        ex.spawn("A", async {
            let r = pa.run(&mut a_tx, &mut a_rx).await;
            *res_a.borrow_mut() = Some(r.map(|(_, m)| m));
        });
        ex.spawn("B", async {
            let r = pb.run(&mut b_tx, &mut b_rx).await;
            *res_b.borrow_mut() = Some(r.map(|(_, m)| m));
        });
        let end = ex.run(ch, horizon);
        (end, ex.steps)
    });
    disown_select();
    let (end, steps, panic) = match r {
        Ok((e, s)) => (e, s, None),
        Err(p) => (End::Horizon, 0, Some(p)),
    };

    let mut events: [Vec<Evt>; 2] = [vec![], vec![]];
    while let Ok(e) = evr_a.try_recv() {
        events[0].push(e);
    }
    while let Ok(e) = evr_b.try_recv() {
        events[1].push(e);
    }
    let mut outcome = [Outcome::Unfinished, Outcome::Unfinished];
    let mut metrics = [None, None];
    for (i, r) in [res_a.into_inner(), res_b.into_inner()].into_iter().enumerate() {
        match r {
            Some(Ok(m)) => {
                outcome[i] = Outcome::Ok;
                metrics[i] = Some(m);
            }
            Some(Err(e)) => outcome[i] = Outcome::Err(err_kind(&e)),
            None => {}
        }
    }
    let wire = [st[0].borrow().log.clone(), st[1].borrow().log.clone()];
    let pe = |i: usize| {
        let s = st[i].borrow();
        PipeEnd { tx_parked: s.tx_parked, rx_parked: s.rx_parked, queued: s.queue.len(), max_queued: s.max_queued }
    };
    PairRun { end, steps, outcome, metrics, wire, events, pipe: [pe(0), pe(1)], panic }
}
