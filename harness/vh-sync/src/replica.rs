//! Enumerated replica configurations: per (author, log) slot a chain with an optional prune point
//! and, per side, whether the log is listed in the side's `Logs` map and which part of the chain
//! the side stores.
#![allow(dead_code)]
use std::collections::{BTreeMap, BTreeSet, HashMap};

use p2panda_core::{SeqNum, VerifyingKey};
use p2panda_sync::protocols::Logs;
use refmodel::MemStore;

use crate::fixtures::{author, fill, make_chain, LogIdT, Op};

#[derive(Clone, Copy, Debug, Hash, PartialEq, Eq, PartialOrd, Ord)]
pub enum SlotSide {
    /// Log not in the side's `Logs` map, nothing stored.
    Unlisted,
    /// Log not in the side's `Logs` map but the store holds seq 0..=h (the log belongs to another
    /// topic on that replica).
    UnlistedStored(SeqNum),
    /// Log in the `Logs` map; height `None` = no entries; `pruned` = entries below the chain's
    /// prune point were removed.
    Listed(Option<SeqNum>, bool),
}

impl SlotSide {
    pub fn listed(&self) -> bool {
        matches!(self, SlotSide::Listed(..))
    }
}

#[derive(Clone, Debug, Hash, PartialEq, Eq)]
pub struct SlotCfg {
    pub a: usize,
    pub l: LogIdT,
    /// Sequence number of the chain's prune-flagged operation.
    pub p: Option<SeqNum>,
    pub side: [SlotSide; 2],
}

#[derive(Clone, Debug, Hash, PartialEq, Eq)]
pub struct Config {
    pub slots: Vec<SlotCfg>,
    /// `empty_list[side][author]`: the author is in the side's `Logs` map with an empty log list
    /// (only when none of its logs is listed).
    pub empty_list: [Vec<bool>; 2],
}

pub const N_AUTHORS: usize = 2;

/// All (p, sideA, sideB) combinations of one slot.  `heights`: listed heights offered
/// (None = no entries); `prune_points`: chain prune points offered (None = no prune point);
/// `unlisted_stored`: also offer "stored but not listed" with that height.
pub fn slot_options(
    a: usize,
    l: LogIdT,
    max_h: SeqNum,
    prune_points: &[Option<SeqNum>],
    unlisted_stored: Option<SeqNum>,
) -> Vec<SlotCfg> {
    let mut out = vec![];
    for &p in prune_points {
        let mut sides = vec![SlotSide::Unlisted, SlotSide::Listed(None, false)];
        if let Some(h) = unlisted_stored {
            sides.push(SlotSide::UnlistedStored(h));
        }
        for h in 0..=max_h {
            sides.push(SlotSide::Listed(Some(h), false));
            if let Some(p) = p {
                if p >= 1 && h >= p {
                    sides.push(SlotSide::Listed(Some(h), true));
                }
            }
        }
        for &sa in &sides {
            for &sb in &sides {
                out.push(SlotCfg { a, l, p, side: [sa, sb] });
            }
        }
    }
    out
}

/// Cartesian product of slot options, then the "author listed with an empty log list" variants.
pub fn product(options: &[Vec<SlotCfg>]) -> Vec<Config> {
    let mut acc: Vec<Vec<SlotCfg>> = vec![vec![]];
    for opts in options {
        let mut next = Vec::with_capacity(acc.len() * opts.len());
        for base in &acc {
            for o in opts {
                let mut v = base.clone();
                v.push(o.clone());
                next.push(v);
            }
        }
        acc = next;
    }
    let mut out = vec![];
    for slots in acc {
        // which (side, author) pairs have no listed log
        let mut free: Vec<(usize, usize)> = vec![];
        for side in 0..2 {
            for a in 0..N_AUTHORS {
                if !slots.iter().any(|s| s.a == a && s.side[side].listed()) {
                    free.push((side, a));
                }
            }
        }
        for mask in 0..(1u32 << free.len()) {
            let mut empty_list = [vec![false; N_AUTHORS], vec![false; N_AUTHORS]];
            for (i, (side, a)) in free.iter().enumerate() {
                if mask & (1 << i) != 0 {
                    empty_list[*side][*a] = true;
                }
            }
            out.push(Config { slots: slots.clone(), empty_list });
        }
    }
    out
}

/// Pre-signed chains, shared read-only between worker threads.
pub struct Chains {
    map: HashMap<(usize, LogIdT, Option<SeqNum>), Vec<Op>>,
    pub authors: Vec<VerifyingKey>,
}

impl Chains {
    pub fn new(authors: usize, logs: LogIdT, len: usize, prune_points: &[Option<SeqNum>]) -> Chains {
        let mut map = HashMap::new();
        for a in 0..authors {
            for l in 0..logs {
                for &p in prune_points {
                    map.insert((a, l, p), make_chain(a, l, len, p));
                }
            }
        }
        Chains { map, authors: (0..authors).map(author).collect() }
    }
    pub fn get(&self, a: usize, l: LogIdT, p: Option<SeqNum>) -> &[Op] {
        &self.map[&(a, l, p)]
    }
    pub fn author_index(&self, k: &VerifyingKey) -> usize {
        self.authors.iter().position(|x| x == k).unwrap_or(usize::MAX)
    }
}

#[derive(Clone)]
pub struct Replica {
    pub store: MemStore,
    pub logs: Logs<LogIdT>,
    pub listed: BTreeSet<(usize, LogIdT)>,
    /// Stored operations per slot, ascending.
    pub stored: BTreeMap<(usize, LogIdT), Vec<Op>>,
}

impl Replica {
    pub fn height(&self, a: usize, l: LogIdT) -> Option<SeqNum> {
        self.stored.get(&(a, l)).and_then(|v| v.last()).map(|o| o.header.seq_num)
    }
}

pub fn stored_ops(chains: &Chains, s: &SlotCfg, side: usize) -> Vec<Op> {
    let chain = chains.get(s.a, s.l, s.p);
    match s.side[side] {
        SlotSide::Unlisted | SlotSide::Listed(None, _) => vec![],
        SlotSide::UnlistedStored(h) => chain[0..=h as usize].to_vec(),
        SlotSide::Listed(Some(h), pruned) => {
            let from = if pruned { s.p.unwrap_or(0) } else { 0 };
            chain[from as usize..=h as usize].to_vec()
        }
    }
}

pub fn build(chains: &Chains, cfg: &Config, side: usize) -> Replica {
    let store = MemStore::new();
    let mut logs: Logs<LogIdT> = BTreeMap::new();
    let mut listed = BTreeSet::new();
    let mut stored = BTreeMap::new();
    for s in &cfg.slots {
        let ops = stored_ops(chains, s, side);
        fill(&store, &ops);
        if !ops.is_empty() {
            stored.insert((s.a, s.l), ops);
        }
        if s.side[side].listed() {
            listed.insert((s.a, s.l));
            logs.entry(chains.authors[s.a]).or_default().push(s.l);
        }
    }
    for a in 0..N_AUTHORS {
        if cfg.empty_list[side][a] {
            logs.entry(chains.authors[a]).or_default();
        }
    }
    Replica { store, logs, listed, stored }
}

/// A replica built once per configuration; `instantiate` gives a fresh store with the same
/// committed data (much cheaper than re-encoding every operation per execution).
pub struct Template {
    data: refmodel::memstore::Data,
    rep: Replica,
}

pub fn template(chains: &Chains, cfg: &Config, side: usize) -> Template {
    let rep = build(chains, cfg, side);
    Template { data: rep.store.dump(), rep }
}

impl Template {
    pub fn instantiate(&self) -> Replica {
        let store = MemStore::new();
        store.mutate_committed(|d| *d = self.data.clone());
        Replica { store, logs: self.rep.logs.clone(), listed: self.rep.listed.clone(), stored: self.rep.stored.clone() }
    }
}

pub fn describe_side(cfg: &Config, side: usize) -> String {
    let mut parts = vec![];
    for s in &cfg.slots {
        let d = match s.side[side] {
            SlotSide::Unlisted => continue,
            SlotSide::UnlistedStored(h) => format!("author{}/log{}: stored seq 0..={h} but not in Logs", s.a, s.l),
            SlotSide::Listed(None, _) => format!("author{}/log{}: listed, no entries", s.a, s.l),
            SlotSide::Listed(Some(h), false) => format!("author{}/log{}: seq 0..={h}", s.a, s.l),
            SlotSide::Listed(Some(h), true) => format!("author{}/log{}: seq {}..={h} (pruned below prune point {})", s.a, s.l, s.p.unwrap_or(0), s.p.unwrap_or(0)),
        };
        parts.push(d);
    }
    for a in 0..N_AUTHORS {
        if cfg.empty_list[side][a] {
            parts.push(format!("author{a}: listed with empty log list"));
        }
    }
    if parts.is_empty() {
        "nothing".into()
    } else {
        parts.join("; ")
    }
}

pub fn describe(cfg: &Config) -> String {
    let pp: Vec<String> = cfg
        .slots
        .iter()
        .filter_map(|s| s.p.map(|p| format!("author{}/log{} prune flag at seq {p}", s.a, s.l)))
        .collect();
    format!(
        "A = [{}], B = [{}]{}",
        describe_side(cfg, 0),
        describe_side(cfg, 1),
        if pp.is_empty() { String::new() } else { format!(" ({})", pp.join(", ")) }
    )
}

pub fn to_json(cfg: &Config) -> serde_json::Value {
    serde_json::json!({
        "slots": cfg.slots.iter().map(|s| serde_json::json!({
            "author": s.a, "log": s.l, "prune_point": s.p,
            "A": format!("{:?}", s.side[0]), "B": format!("{:?}", s.side[1]),
        })).collect::<Vec<_>>(),
        "empty_list": [cfg.empty_list[0].clone(), cfg.empty_list[1].clone()],
    })
}
