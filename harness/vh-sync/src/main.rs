//! Checks on p2panda-sync protocols: log sync (C19, C20, C21) and topic handshake (C25).
use explorer::{Args, Report};

mod c19;
mod fixtures;
mod par;
mod replica;
mod session;

fn main() {
    let args = Args::parse();
    explorer::quiet_panics();
    let code = match args.property.as_str() {
        "C19" => c19::run(Report::new(&args, "model_checking")),
        other => {
            eprintln!("vh-sync: unknown property {other}");
            2
        }
    };
    std::process::exit(code);
}
