//! Checks on p2panda-sync protocols: log sync (C19, C20, C21) and topic handshake (C25).
use explorer::{Args, Report};

mod c19;
mod c20;
mod c21;
mod c25;
mod fixtures;
mod par;
mod replica;
mod session;
mod sqlconf;

unsafe extern "C" {
    fn mallopt(param: i32, value: i32) -> i32;
}

fn main() {
    // glibc: never give freed arena memory back per execution (heap_trim -> madvise was 75 % of
    // the run time: every execution allocates and frees a few hundred KB in a worker arena).
    unsafe {
        mallopt(-1, 1 << 30); // M_TRIM_THRESHOLD
        mallopt(-2, 64 << 20); // M_TOP_PAD
        mallopt(-3, 1 << 30); // M_MMAP_THRESHOLD
    }
    let args = Args::parse();
    explorer::quiet_panics();
    let code = explorer::guard_main(&args.property, || match args.property.as_str() {
        "C19" => c19::run(Report::new(&args, "model_checking")),
        "C20" => c20::run(Report::new(&args, "fault_enumeration")),
        "C21" => c21::run(Report::new(&args, "model_checking")),
        "C25" => c25::run(Report::new(&args, "fault_enumeration")),
        other => {
            eprintln!("vh-sync: unknown property {other}");
            2
        }
    });
    std::process::exit(code);
}
