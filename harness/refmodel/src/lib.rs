//! Deliberately boring reference models (DESIGN.md §5).
//!
//! `MemStore` keeps operations, topic associations in plain ordered maps and implements the
//! p2panda-store traits (`LogStore`, `OperationStore`, `TopicStore`, `Transaction`) so generic
//! protocol code can run on it under the single-threaded E-TASK executor with no hidden threads.
//! Its equivalence with `SqliteStore` is itself checked exhaustively (C08 / C09).
pub mod memstore;
pub use memstore::{MemError, MemStore, Row};
