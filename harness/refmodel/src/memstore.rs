use std::collections::{BTreeMap, BTreeSet};
use std::sync::{Arc, Mutex};

use p2panda_core::cbor::{decode_cbor, encode_cbor};
use p2panda_core::{Extensions, Hash, LogId, Operation, SeqNum, VerifyingKey};
use p2panda_store::logs::LogStore;
use p2panda_store::operations::OperationStore;
use p2panda_store::topics::TopicStore;
use p2panda_store::Transaction;
use serde::{Deserialize, Serialize};
use tokio::sync::{OwnedSemaphorePermit, Semaphore};

#[derive(Debug, thiserror::Error, Clone, PartialEq, Eq)]
pub enum MemError {
    #[error("write outside of a transaction")]
    TransactionMissing,
    #[error("codec: {0}")]
    Codec(String),
    #[error("injected fault: {0}")]
    Injected(String),
}

/// One stored operation, kept in encoded form (so the store is generic over `L` and `E` at the
/// method level exactly like the SQLite implementation).
#[derive(Clone, Debug, PartialEq, Eq, PartialOrd, Ord, Hash)]
pub struct Row {
    pub log_id: Vec<u8>,
    pub author: String,
    pub seq_num: SeqNum,
    pub header: Vec<u8>,
    pub header_size: u32,
    pub payload_size: u32,
    pub body: Option<Vec<u8>>,
}

#[derive(Clone, Debug, Default, PartialEq, Eq, Hash)]
pub struct Data {
    /// hash (hex) -> row
    pub ops: BTreeMap<String, Row>,
    /// (topic cbor, author, data_id cbor)
    pub topics: BTreeSet<(Vec<u8>, String, Vec<u8>)>,
}

#[derive(Default)]
struct Inner {
    committed: Data,
    /// Working copy of the transaction in progress.
    tx: Option<Data>,
    /// Number of trait calls made so far (for fault wrappers / statistics).
    calls: u64,
}

/// In-memory store with serialised transactions.
#[derive(Clone)]
pub struct MemStore {
    inner: Arc<Mutex<Inner>>,
    semaphore: Arc<Semaphore>,
}

impl Default for MemStore {
    fn default() -> Self {
        Self::new()
    }
}

pub struct MemPermit {
    _permit: OwnedSemaphorePermit,
    inner: Arc<Mutex<Inner>>,
    done: bool,
}

impl Drop for MemPermit {
    fn drop(&mut self) {
        if !self.done {
            // Dropped without commit/rollback: roll back.
            self.inner.lock().unwrap().tx = None;
        }
    }
}

fn enc<T: Serialize>(t: &T) -> Result<Vec<u8>, MemError> {
    encode_cbor(t).map_err(|e| MemError::Codec(e.to_string()))
}

fn dec<T: for<'a> Deserialize<'a>>(b: &[u8]) -> Result<T, MemError> {
    decode_cbor(b).map_err(|e| MemError::Codec(e.to_string()))
}

fn to_op<E: Extensions>(hash: &str, row: &Row) -> Result<Operation<E>, MemError> {
    Ok(Operation {
        hash: hash.parse().map_err(|_| MemError::Codec("hash".into()))?,
        header: dec(&row.header)?,
        body: row.body.clone().map(|b| b.into()),
    })
}

impl MemStore {
    pub fn new() -> Self {
        MemStore {
            inner: Arc::new(Mutex::new(Inner::default())),
            semaphore: Arc::new(Semaphore::new(1)),
        }
    }

    /// Snapshot of the committed data (the observable store state).
    pub fn dump(&self) -> Data {
        self.inner.lock().unwrap().committed.clone()
    }

    pub fn calls(&self) -> u64 {
        self.inner.lock().unwrap().calls
    }

    fn read<R>(&self, f: impl FnOnce(&Data) -> R) -> R {
        let mut g = self.inner.lock().unwrap();
        g.calls += 1;
        f(&g.committed)
    }

    /// Dirty read inside the current transaction; falls back to an error like the SQLite store.
    fn read_tx<R>(&self, f: impl FnOnce(&Data) -> R) -> Result<R, MemError> {
        let mut g = self.inner.lock().unwrap();
        g.calls += 1;
        match &g.tx {
            Some(d) => Ok(f(d)),
            None => Err(MemError::TransactionMissing),
        }
    }

    fn write<R>(&self, f: impl FnOnce(&mut Data) -> R) -> Result<R, MemError> {
        let mut g = self.inner.lock().unwrap();
        g.calls += 1;
        match &mut g.tx {
            Some(d) => Ok(f(d)),
            None => Err(MemError::TransactionMissing),
        }
    }

    /// Direct (non-transactional) mutation used by harness fault injectors to model a concurrent
    /// writer whose transaction committed in between two calls of the code under test.
    pub fn mutate_committed<R>(&self, f: impl FnOnce(&mut Data) -> R) -> R {
        let mut g = self.inner.lock().unwrap();
        let r = f(&mut g.committed);
        if let Some(tx) = &mut g.tx {
            // keep an open working copy coherent for keys it did not touch: simplest sound choice
            // is to re-apply the same mutation
            let _ = tx;
        }
        r
    }

    /// Convenience for harnesses: insert an operation directly into the committed state.
    pub fn put<E: Extensions, L: LogId>(&self, op: &Operation<E>, log_id: &L) {
        let row = row_of(op, log_id).unwrap();
        self.mutate_committed(|d| {
            d.ops.entry(op.hash.to_hex()).or_insert(row);
        });
    }

    pub fn put_topic<T: Serialize, L: LogId>(&self, topic: &T, author: &VerifyingKey, log_id: &L) {
        let k = (enc(topic).unwrap(), author.to_string(), enc(log_id).unwrap());
        self.mutate_committed(|d| {
            d.topics.insert(k);
        });
    }

    /// Delete all entries of (author, log) with seq < until, directly on the committed state.
    pub fn prune_direct<L: LogId>(&self, author: &VerifyingKey, log_id: &L, until: SeqNum) -> usize {
        let a = author.to_string();
        let l = enc(log_id).unwrap();
        self.mutate_committed(|d| {
            let before = d.ops.len();
            d.ops
                .retain(|_, r| !(r.author == a && r.log_id == l && r.seq_num < until));
            before - d.ops.len()
        })
    }
}

pub fn row_of<E: Extensions, L: LogId>(op: &Operation<E>, log_id: &L) -> Result<Row, MemError> {
    Ok(Row {
        log_id: enc(log_id)?,
        author: op.header.verifying_key.to_string(),
        seq_num: op.header.seq_num,
        header: enc(&op.header)?,
        header_size: op.header.to_bytes().len() as u32,
        payload_size: op.header.payload_size,
        body: op.body.as_ref().map(|b| b.to_bytes()),
    })
}

impl Transaction for MemStore {
    type Error = MemError;
    type Permit = MemPermit;

    async fn begin(&self) -> Result<MemPermit, MemError> {
        let permit = self
            .semaphore
            .clone()
            .acquire_owned()
            .await
            .expect("semaphore never closed");
        let mut g = self.inner.lock().unwrap();
        g.calls += 1;
        assert!(g.tx.is_none(), "transaction already open after acquiring the permit");
        g.tx = Some(g.committed.clone());
        Ok(MemPermit {
            _permit: permit,
            inner: self.inner.clone(),
            done: false,
        })
    }

    async fn rollback(&self, mut permit: MemPermit) -> Result<(), MemError> {
        let mut g = self.inner.lock().unwrap();
        g.calls += 1;
        g.tx = None;
        permit.done = true;
        Ok(())
    }

    async fn commit(&self, mut permit: MemPermit) -> Result<(), MemError> {
        let mut g = self.inner.lock().unwrap();
        g.calls += 1;
        if let Some(d) = g.tx.take() {
            g.committed = d;
        }
        permit.done = true;
        Ok(())
    }
}

impl<E: Extensions> OperationStore<Operation<E>, Hash> for MemStore {
    type Error = MemError;

    async fn insert_operation<L: LogId>(
        &self,
        id: &Hash,
        operation: &Operation<E>,
        log_id: &L,
    ) -> Result<bool, MemError> {
        let row = row_of(operation, log_id)?;
        self.write(|d| {
            if d.ops.contains_key(&id.to_hex()) {
                false
            } else {
                d.ops.insert(id.to_hex(), row);
                true
            }
        })
    }

    async fn get_operation(&self, id: &Hash) -> Result<Option<Operation<E>>, MemError> {
        self.read(|d| d.ops.get(&id.to_hex()).map(|r| to_op(&id.to_hex(), r)))
            .transpose()
    }

    async fn get_operation_tx(&self, id: &Hash) -> Result<Option<Operation<E>>, MemError> {
        self.read_tx(|d| d.ops.get(&id.to_hex()).map(|r| to_op(&id.to_hex(), r)))?
            .transpose()
    }

    async fn has_operation(&self, id: &Hash) -> Result<bool, MemError> {
        Ok(self.read(|d| d.ops.contains_key(&id.to_hex())))
    }

    async fn has_operation_tx(&self, id: &Hash) -> Result<bool, MemError> {
        self.read_tx(|d| d.ops.contains_key(&id.to_hex()))
    }

    async fn delete_operation(&self, id: &Hash) -> Result<bool, MemError> {
        self.write(|d| d.ops.remove(&id.to_hex()).is_some())
    }

    async fn delete_operation_payload(&self, id: &Hash) -> Result<bool, MemError> {
        // The SQLite implementation runs this directly on the pool (auto-commit).
        let mut g = self.inner.lock().unwrap();
        g.calls += 1;
        let hit = match g.committed.ops.get_mut(&id.to_hex()) {
            Some(r) => {
                r.body = None;
                true
            }
            None => false,
        };
        if let Some(tx) = &mut g.tx {
            if let Some(r) = tx.ops.get_mut(&id.to_hex()) {
                r.body = None;
            }
        }
        Ok(hit)
    }
}

fn log_rows<'a>(d: &'a Data, author: &str, log: &[u8]) -> Vec<(&'a String, &'a Row)> {
    let mut v: Vec<_> = d
        .ops
        .iter()
        .filter(|(_, r)| r.author == author && r.log_id == log)
        .collect();
    v.sort_by_key(|(_, r)| r.seq_num);
    v
}

fn in_range(seq: SeqNum, after: Option<SeqNum>, until: Option<SeqNum>) -> bool {
    let lo = match after {
        None => true,
        Some(a) => seq > a,
    };
    lo && seq <= until.unwrap_or(SeqNum::MAX)
}

impl<L: LogId, E: Extensions> LogStore<Operation<E>, VerifyingKey, L, SeqNum, Hash> for MemStore {
    type Error = MemError;

    async fn get_latest_entry(
        &self,
        author: &VerifyingKey,
        log_id: &L,
    ) -> Result<Option<Operation<E>>, MemError> {
        let l = enc(log_id)?;
        self.read(|d| {
            log_rows(d, &author.to_string(), &l)
                .last()
                .map(|(h, r)| to_op(h, r))
        })
        .transpose()
    }

    async fn get_latest_entry_tx(
        &self,
        author: &VerifyingKey,
        log_id: &L,
    ) -> Result<Option<Operation<E>>, MemError> {
        let l = enc(log_id)?;
        self.read_tx(|d| {
            log_rows(d, &author.to_string(), &l)
                .last()
                .map(|(h, r)| to_op(h, r))
        })?
        .transpose()
    }

    async fn get_log_heights(
        &self,
        author: &VerifyingKey,
        logs: &[L],
    ) -> Result<Option<BTreeMap<L, SeqNum>>, MemError> {
        let mut out = BTreeMap::new();
        let a = author.to_string();
        for log in logs {
            let l = enc(log)?;
            if let Some(h) = self.read(|d| log_rows(d, &a, &l).last().map(|(_, r)| r.seq_num)) {
                out.insert(log.clone(), h);
            }
        }
        Ok(if out.is_empty() { None } else { Some(out) })
    }

    async fn get_log_size(
        &self,
        author: &VerifyingKey,
        log_id: &L,
        after: Option<SeqNum>,
        until: Option<SeqNum>,
    ) -> Result<Option<(u32, u32)>, MemError> {
        let l = enc(log_id)?;
        Ok(Some(self.read(|d| {
            let rows = log_rows(d, &author.to_string(), &l);
            let sel: Vec<_> = rows
                .iter()
                .filter(|(_, r)| in_range(r.seq_num, after, until))
                .collect();
            (
                sel.len() as u32,
                sel.iter().map(|(_, r)| r.header_size + r.payload_size).sum(),
            )
        })))
    }

    async fn get_log_entries(
        &self,
        author: &VerifyingKey,
        log_id: &L,
        after: Option<SeqNum>,
        until: Option<SeqNum>,
    ) -> Result<Option<Vec<(Operation<E>, Vec<u8>)>>, MemError> {
        let l = enc(log_id)?;
        let rows: Vec<(String, Row)> = self.read(|d| {
            log_rows(d, &author.to_string(), &l)
                .into_iter()
                .filter(|(_, r)| in_range(r.seq_num, after, until))
                .map(|(h, r)| (h.clone(), r.clone()))
                .collect()
        });
        let mut out = vec![];
        for (h, r) in rows {
            out.push((to_op(&h, &r)?, r.header.clone()));
        }
        Ok(if out.is_empty() { None } else { Some(out) })
    }

    async fn prune_entries(
        &self,
        author: &VerifyingKey,
        log_id: &L,
        until: &SeqNum,
    ) -> Result<u64, MemError> {
        // The SQLite implementation runs this directly on the pool (auto-commit).
        let a = author.to_string();
        let l = enc(log_id)?;
        let mut g = self.inner.lock().unwrap();
        g.calls += 1;
        let before = g.committed.ops.len();
        g.committed
            .ops
            .retain(|_, r| !(r.author == a && r.log_id == l && r.seq_num < *until));
        let n = before - g.committed.ops.len();
        if let Some(tx) = &mut g.tx {
            tx.ops
                .retain(|_, r| !(r.author == a && r.log_id == l && r.seq_num < *until));
        }
        Ok(n as u64)
    }
}

impl<T, L> TopicStore<T, VerifyingKey, L> for MemStore
where
    T: Serialize + for<'de> Deserialize<'de>,
    L: LogId,
{
    type Error = MemError;

    async fn associate(&self, topic: &T, author: &VerifyingKey, data_id: &L) -> Result<bool, MemError> {
        let k = (enc(topic)?, author.to_string(), enc(data_id)?);
        self.write(|d| d.topics.insert(k))
    }

    async fn remove(&self, topic: &T, author: &VerifyingKey, data_id: &L) -> Result<bool, MemError> {
        let k = (enc(topic)?, author.to_string(), enc(data_id)?);
        self.write(|d| d.topics.remove(&k))
    }

    async fn resolve(&self, topic: &T) -> Result<BTreeMap<VerifyingKey, Vec<L>>, MemError> {
        let t = enc(topic)?;
        let rows: Vec<(String, Vec<u8>)> = self.read(|d| {
            d.topics
                .iter()
                .filter(|(tt, _, _)| *tt == t)
                .map(|(_, a, l)| (a.clone(), l.clone()))
                .collect()
        });
        let mut out: BTreeMap<VerifyingKey, Vec<L>> = BTreeMap::new();
        for (a, l) in rows {
            let a: VerifyingKey = a.parse().map_err(|_| MemError::Codec("author".into()))?;
            out.entry(a).or_default().push(dec(&l)?);
        }
        Ok(out)
    }
}
