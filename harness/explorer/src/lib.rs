//! Model-checking engines for the p2panda verification harness (see /verif/DESIGN.md §2).
pub mod bfs;
pub mod chooser;
pub mod report;
pub mod task;
pub mod thread;

pub use chooser::{dfs, dfs_par, Chooser, DfsCfg, DfsStats};
pub use report::{catch, guard_main, h64, quiet_panics, Args, Report};
pub use serde_json::{json, Value};
