//! E-THREAD: baton scheduler for real OS threads.
//!
//! Every logical thread is a real `std::thread` that only runs while it holds the baton.  Schedule
//! points are (a) the synchronisation-operation hook of the vendored tokio (seam S2,
//! `tokio::verif::point`), (b) explicit `point()` calls (cfg hooks in p2panda), (c) a thread's
//! `block_on` going to sleep, (d) thread exit.  At a schedule point the chooser picks the next
//! thread among the runnable ones; staying on the current thread is the default, switching away
//! from a runnable thread costs one deviation (= one preemption).  When the current thread blocks
//! or exits, the successor is a free choice.  "No runnable thread, some blocked" is deadlock: all
//! threads are unwound and the execution reports who was blocked.
use std::future::Future;
use std::panic::{catch_unwind, resume_unwind, AssertUnwindSafe};
use std::pin::pin;
use std::sync::{Arc, Condvar, Mutex};
use std::task::{Context, Poll, Wake, Waker};

use crate::chooser::Chooser;

#[derive(Clone, Copy, Debug, PartialEq, Eq)]
enum Status {
    Runnable,
    Blocked,
    Done,
}

struct Sched {
    current: Option<usize>,
    status: Vec<Status>,
    woken: Vec<bool>,
    /// wake-ups delivered by threads outside the baton (actors, I/O workers); they only take
    /// effect when no baton thread is runnable, so they cannot perturb the explored schedule
    ext_woken: Vec<bool>,
    /// the scheduler chose to let the outside world act first although a baton thread could run
    idling: bool,
    names: Vec<String>,
    abort: bool,
    deadlock: Option<Vec<String>>,
    points: u64,
    switches: u64,
    trace: Vec<String>,
}

struct Shared {
    m: Mutex<Sched>,
    cv: Condvar,
    ch: Chooser,
    horizon: u64,
    /// how long to wait for an external wake-up before a state with no runnable thread is
    /// declared a deadlock (None: immediately)
    external_grace: Option<std::time::Duration>,
    /// how long delayed runnable threads wait for the outside world ("run-or-wait-external" = wait)
    idle_grace: std::time::Duration,
}

/// Payload used to unwind threads of an aborted (deadlocked / over-horizon) execution.
struct Aborted;

#[derive(Clone)]
pub struct ThreadCtx {
    sh: Arc<Shared>,
    pub id: usize,
}

#[derive(Debug, Clone, PartialEq, Eq)]
pub enum ThreadEnd {
    Completed,
    /// names of the threads parked for ever
    Deadlock(Vec<String>),
    /// schedule-point horizon exceeded (livelock or runaway)
    Horizon,
    Panicked(String),
}

#[derive(Debug, Clone)]
pub struct ThreadRun {
    pub end: ThreadEnd,
    pub points: u64,
    pub switches: u64,
    pub trace: Vec<String>,
}

impl Shared {
    fn lock(&self) -> std::sync::MutexGuard<'_, Sched> {
        self.m.lock().unwrap_or_else(|e| e.into_inner())
    }

    /// Pick the successor when the current thread cannot continue.
    fn hand_over(&self, g: &mut Sched, from: usize, why: &str) {
        let mut runnable: Vec<usize> = (0..g.status.len()).filter(|i| g.status[*i] == Status::Runnable).collect();
        if runnable.is_empty() {
            // external wake-ups that arrived meanwhile take effect now, in id order
            for i in 0..g.status.len() {
                if g.ext_woken[i] && g.status[i] == Status::Blocked {
                    g.ext_woken[i] = false;
                    g.woken[i] = true;
                    g.status[i] = Status::Runnable;
                    runnable.push(i);
                }
            }
        }
        if runnable.is_empty() {
            if g.status.iter().any(|s| *s == Status::Blocked) {
                if self.external_grace.is_some() {
                    // nobody under the baton can run: wait for the outside world (see wait_for_baton)
                    g.current = None;
                    g.trace.push(format!("{}:{why}->(waiting for external wake-up)", g.names[from]));
                    self.cv.notify_all();
                    return;
                }
                let who = (0..g.status.len()).filter(|i| g.status[*i] == Status::Blocked).map(|i| g.names[i].clone()).collect();
                g.deadlock = Some(who);
                g.abort = true;
            }
            g.current = None;
        } else {
            // With threads parked on the outside world, "nobody under the baton runs until the
            // outside world has answered" is a schedule of its own (the runnable threads are simply
            // slow); it costs one deviation.
            if self.external_grace.is_some() && g.status.iter().any(|s| *s == Status::Blocked) {
                let w = self.ch.choose(2, "run-or-wait-external");
                if w == 1 {
                    g.idling = true;
                    g.current = None;
                    g.trace.push(format!("{}:{why}->(runnable threads delayed until an external wake-up)", g.names[from]));
                    self.cv.notify_all();
                    return;
                }
            }
            let k = self.ch.choose_free(runnable.len(), "next-thread");
            g.current = Some(runnable[k]);
            g.switches += 1;
            g.trace.push(format!("{}:{why}->{}", g.names[from], g.names[runnable[k]]));
        }
        self.cv.notify_all();
    }

    fn wait_for_baton(&self, mut g: std::sync::MutexGuard<'_, Sched>, id: usize) {
        let mut idle_since: Option<std::time::Instant> = None;
        loop {
            if g.abort {
                drop(g);
                resume_unwind(Box::new(Aborted));
            }
            if g.current == Some(id) {
                return;
            }
            if g.current.is_none() && (g.idling || g.status.iter().all(|s| *s != Status::Runnable)) && g.status.iter().any(|s| *s == Status::Blocked) {
                // everybody under the baton is parked: an external wake-up may release one of us
                if let Some(i) = (0..g.status.len()).find(|i| g.ext_woken[*i] && g.status[*i] == Status::Blocked) {
                    g.ext_woken[i] = false;
                    g.woken[i] = true;
                    g.status[i] = Status::Runnable;
                    g.current = Some(i);
                    g.idling = false;
                    g.switches += 1;
                    let line = format!("(external wake-up)->{}", g.names[i]);
                    g.trace.push(line);
                    self.cv.notify_all();
                    continue;
                }
                let mut grace = self.external_grace.unwrap_or_default();
                if g.idling {
                    grace = grace.min(self.idle_grace);
                }
                let since = *idle_since.get_or_insert_with(std::time::Instant::now);
                if since.elapsed() >= grace && g.idling {
                    // nothing came from outside: the delayed threads run after all
                    g.idling = false;
                    if let Some(i) = (0..g.status.len()).find(|i| g.status[*i] == Status::Runnable) {
                        g.current = Some(i);
                        g.switches += 1;
                        let line = format!("(no external wake-up)->{}", g.names[i]);
                        g.trace.push(line);
                        self.cv.notify_all();
                        continue;
                    }
                }
                if since.elapsed() >= grace {
                    let who = (0..g.status.len()).filter(|i| g.status[*i] == Status::Blocked).map(|i| g.names[i].clone()).collect();
                    g.deadlock = Some(who);
                    g.abort = true;
                    self.cv.notify_all();
                    continue;
                }
                let (g2, _) = self.cv.wait_timeout(g, std::time::Duration::from_millis(20)).unwrap_or_else(|e| e.into_inner());
                g = g2;
                continue;
            }
            idle_since = None;
            g = self.cv.wait(g).unwrap_or_else(|e| e.into_inner());
        }
    }
}

thread_local! {
    /// set on threads that run under the baton
    static UNDER_BATON: std::cell::Cell<bool> = const { std::cell::Cell::new(false) };
}

impl ThreadCtx {
    /// A schedule point: the chooser may preempt the calling thread here.
    pub fn point(&self, label: &'static str) {
        let sh = &self.sh;
        let mut g = sh.lock();
        if g.abort || g.current != Some(self.id) {
            // aborted execution (unwinding) or a point reached by a thread that is not under the
            // baton (e.g. during its own unwinding): never block here
            return;
        }
        g.points += 1;
        if g.points > sh.horizon {
            g.abort = true;
            g.deadlock = None;
            sh.cv.notify_all();
            drop(g);
            resume_unwind(Box::new(Aborted));
        }
        let mut cands: Vec<usize> = vec![self.id];
        cands.extend((0..g.status.len()).filter(|i| *i != self.id && g.status[*i] == Status::Runnable));
        if cands.len() == 1 {
            return;
        }
        let k = sh.ch.choose(cands.len(), "preempt");
        if k == 0 {
            return;
        }
        let next = cands[k];
        g.current = Some(next);
        g.switches += 1;
        let line = format!("{}:preempted@{label}->{}", g.names[self.id], g.names[next]);
        g.trace.push(line);
        sh.cv.notify_all();
        sh.wait_for_baton(g, self.id);
    }

    /// Drive a future on this logical thread; parking is visible to the scheduler.
    pub fn block_on<F: Future>(&self, fut: F) -> F::Output {
        struct W {
            sh: Arc<Shared>,
            id: usize,
        }
        impl Wake for W {
            fn wake(self: Arc<Self>) {
                self.wake_by_ref()
            }
            fn wake_by_ref(self: &Arc<Self>) {
                let mut g = self.sh.lock();
                if UNDER_BATON.with(|b| b.get()) {
                    g.woken[self.id] = true;
                    if g.status[self.id] == Status::Blocked {
                        g.status[self.id] = Status::Runnable;
                    }
                } else {
                    // from a thread outside the baton: deferred until nobody else can run
                    g.ext_woken[self.id] = true;
                    self.sh.cv.notify_all();
                }
            }
        }
        let waker = Waker::from(Arc::new(W { sh: self.sh.clone(), id: self.id }));
        let mut cx = Context::from_waker(&waker);
        let mut fut = pin!(fut);
        let mut spins = 0u64;
        loop {
            {
                let mut g = self.sh.lock();
                g.woken[self.id] = false;
            }
            if let Poll::Ready(v) = fut.as_mut().poll(&mut cx) {
                return v;
            }
            let sh = &self.sh;
            let mut g = sh.lock();
            if g.abort {
                drop(g);
                resume_unwind(Box::new(Aborted));
            }
            // A wake-up from outside the baton that raced with this poll is *not* consumed here:
            // whether it arrived before or after the poll returned is timing, not schedule.  The
            // thread parks; `hand_over` / `wait_for_baton` deliver the wake-up when nobody else
            // can run, which is the same decision whichever way the race went.
            if g.woken[self.id] {
                // woken during its own poll: poll again (bounded)
                spins += 1;
                if spins > sh.horizon {
                    g.abort = true;
                    sh.cv.notify_all();
                    drop(g);
                    resume_unwind(Box::new(Aborted));
                }
                continue;
            }
            g.status[self.id] = Status::Blocked;
            sh.hand_over(&mut g, self.id, "parks");
            sh.wait_for_baton(g, self.id);
        }
    }
}

/// Run the given closures as logical threads under the baton; returns when all have finished or
/// the execution was aborted (deadlock / horizon).
pub fn run_threads(ch: &Chooser, horizon: u64, bodies: Vec<(String, Box<dyn FnOnce(ThreadCtx) + Send>)>) -> ThreadRun {
    run_threads_ext(ch, horizon, None, bodies)
}

/// Like `run_threads`, but threads may wait for wake-ups from threads outside the baton (actor
/// threads, I/O workers): a state with no runnable thread only counts as deadlock after `grace`.
pub fn run_threads_ext(
    ch: &Chooser,
    horizon: u64,
    external_grace: Option<std::time::Duration>,
    bodies: Vec<(String, Box<dyn FnOnce(ThreadCtx) + Send>)>,
) -> ThreadRun {
    let n = bodies.len();
    let sh = Arc::new(Shared {
        m: Mutex::new(Sched {
            current: None,
            status: vec![Status::Runnable; n],
            woken: vec![false; n],
            ext_woken: vec![false; n],
            idling: false,
            names: bodies.iter().map(|b| b.0.clone()).collect(),
            abort: false,
            deadlock: None,
            points: 0,
            switches: 0,
            trace: vec![],
        }),
        cv: Condvar::new(),
        ch: ch.clone(),
        horizon,
        external_grace,
        idle_grace: std::time::Duration::from_millis(
            std::env::var("VERIF_IDLE_GRACE_MS").ok().and_then(|v| v.parse().ok()).unwrap_or(400),
        ),
    });
    let mut handles = vec![];
    for (id, (_name, body)) in bodies.into_iter().enumerate() {
        let sh2 = sh.clone();
        handles.push(std::thread::spawn(move || {
            let ctx = ThreadCtx { sh: sh2.clone(), id };
            UNDER_BATON.with(|b| b.set(true));
            let r = catch_unwind(AssertUnwindSafe(|| {
                // wait for the first grant
                let g = sh2.lock();
                sh2.wait_for_baton(g, id);
                let hook_ctx = ctx.clone();
                tokio::verif::set_point_hook(Some(Box::new(move |label| hook_ctx.point(label))));
                body(ctx.clone());
            }));
            tokio::verif::set_point_hook(None);
            let mut g = sh2.lock();
            g.status[id] = Status::Done;
            let res = match r {
                Ok(()) => Ok(()),
                Err(e) if e.is::<Aborted>() => Ok(()),
                Err(e) => {
                    g.abort = true;
                    Err(if let Some(s) = e.downcast_ref::<&str>() {
                        s.to_string()
                    } else if let Some(s) = e.downcast_ref::<String>() {
                        s.clone()
                    } else {
                        "panic".to_string()
                    })
                }
            };
            if g.current == Some(id) && !g.abort {
                sh2.hand_over(&mut g, id, "exits");
            } else {
                sh2.cv.notify_all();
            }
            res
        }));
    }
    // first thread to run is a free choice
    {
        let mut g = sh.lock();
        let k = ch.choose_free(n, "first-thread");
        g.current = Some(k);
        sh.cv.notify_all();
    }
    let mut panic_msg = None;
    for h in handles {
        match h.join() {
            Ok(Ok(())) => {}
            Ok(Err(m)) => panic_msg = Some(m),
            Err(_) => panic_msg = Some("thread wrapper panicked".into()),
        }
    }
    let g = sh.lock();
    let end = if let Some(m) = panic_msg {
        ThreadEnd::Panicked(m)
    } else if let Some(d) = &g.deadlock {
        ThreadEnd::Deadlock(d.clone())
    } else if g.abort {
        ThreadEnd::Horizon
    } else {
        ThreadEnd::Completed
    };
    ThreadRun { end, points: g.points, switches: g.switches, trace: g.trace.clone() }
}

#[cfg(test)]
mod tests {
    use super::*;
    use crate::chooser::{dfs, DfsCfg};
    use std::sync::atomic::{AtomicUsize, Ordering};

    #[test]
    fn finds_lost_wakeup_with_one_preemption() {
        // waiter: checks flag under a tokio mutex, then awaits notified(); notifier: sets flag,
        // notify_waiters().  The textbook lost wake-up needs exactly one preemption.
        let mut deadlocks_at = vec![];
        for bound in 0..=1 {
            let mut deadlocks = 0;
            let st = dfs(
                &DfsCfg { max_dev: bound, ..Default::default() },
                |ch| {
                    let flag = Arc::new(tokio::sync::Mutex::new(false));
                    let notify = Arc::new(tokio::sync::Notify::new());
                    let (f1, n1) = (flag.clone(), notify.clone());
                    let (f2, n2) = (flag.clone(), notify.clone());
                    run_threads(
                        ch,
                        10_000,
                        vec![
                            (
                                "waiter".into(),
                                Box::new(move |cx: ThreadCtx| {
                                    cx.block_on(async {
                                        {
                                            let g = f1.lock().await;
                                            if *g {
                                                return;
                                            }
                                        }
                                        n1.notified().await;
                                    })
                                }),
                            ),
                            (
                                "notifier".into(),
                                Box::new(move |cx: ThreadCtx| {
                                    cx.block_on(async {
                                        {
                                            let mut g = f2.lock().await;
                                            *g = true;
                                        }
                                        n2.notify_waiters();
                                    })
                                }),
                            ),
                        ],
                    )
                },
                |_, r| {
                    if matches!(r.end, ThreadEnd::Deadlock(_)) {
                        deadlocks += 1;
                    }
                },
            );
            assert!(st.executions >= 1);
            deadlocks_at.push(deadlocks);
        }
        assert_eq!(deadlocks_at[0], 0, "no deadlock without preemption");
        assert!(deadlocks_at[1] > 0, "one preemption exposes the lost wake-up");
    }

    #[test]
    fn finds_lost_update() {
        let mut outcomes = std::collections::BTreeSet::new();
        dfs(
            &DfsCfg { max_dev: 1, ..Default::default() },
            |ch| {
                let n = Arc::new(AtomicUsize::new(0));
                let bodies: Vec<(String, Box<dyn FnOnce(ThreadCtx) + Send>)> = (0..2)
                    .map(|i| {
                        let n = n.clone();
                        (
                            format!("t{i}"),
                            Box::new(move |cx: ThreadCtx| {
                                let v = n.load(Ordering::SeqCst);
                                cx.point("between-load-and-store");
                                n.store(v + 1, Ordering::SeqCst);
                            }) as Box<dyn FnOnce(ThreadCtx) + Send>,
                        )
                    })
                    .collect();
                let r = run_threads(ch, 1000, bodies);
                assert_eq!(r.end, ThreadEnd::Completed);
                n.load(Ordering::SeqCst)
            },
            |_, v| {
                outcomes.insert(v);
            },
        );
        assert!(outcomes.contains(&1) && outcomes.contains(&2));
    }
}
