//! E-THREAD: baton scheduler for real OS threads.
//!
//! Every logical thread is a real `std::thread` that only runs while it holds the baton.  Schedule
//! points are (a) the synchronisation-operation hook of the vendored tokio (seam S2,
//! `tokio::verif::point`), (b) explicit `point()` calls (cfg hooks in p2panda), (c) a thread's
//! `block_on` going to sleep, (d) thread exit.  At a schedule point the chooser picks the next
//! thread among the runnable ones; staying on the current thread is the default, switching away
//! from a runnable thread costs one deviation (= one preemption).  When the current thread blocks
//! or exits, the successor is a free choice.  "No runnable thread, some blocked" is deadlock: all
//! threads are unwound and the execution reports who was blocked.
use std::future::Future;
use std::panic::{catch_unwind, resume_unwind, AssertUnwindSafe};
use std::pin::pin;
use std::sync::{Arc, Condvar, Mutex};
use std::task::{Context, Poll, Wake, Waker};

use crate::chooser::Chooser;

#[derive(Clone, Copy, Debug, PartialEq, Eq)]
enum Status {
    Runnable,
    Blocked,
    Done,
}

struct Sched {
    current: Option<usize>,
    status: Vec<Status>,
    woken: Vec<bool>,
    names: Vec<String>,
    abort: bool,
    deadlock: Option<Vec<String>>,
    points: u64,
    switches: u64,
    trace: Vec<String>,
}

struct Shared {
    m: Mutex<Sched>,
    cv: Condvar,
    ch: Chooser,
    horizon: u64,
}

/// Payload used to unwind threads of an aborted (deadlocked / over-horizon) execution.
struct Aborted;

#[derive(Clone)]
pub struct ThreadCtx {
    sh: Arc<Shared>,
    pub id: usize,
}

#[derive(Debug, Clone, PartialEq, Eq)]
pub enum ThreadEnd {
    Completed,
    /// names of the threads parked for ever
    Deadlock(Vec<String>),
    /// schedule-point horizon exceeded (livelock or runaway)
    Horizon,
    Panicked(String),
}

#[derive(Debug, Clone)]
pub struct ThreadRun {
    pub end: ThreadEnd,
    pub points: u64,
    pub switches: u64,
    pub trace: Vec<String>,
}

impl Shared {
    fn lock(&self) -> std::sync::MutexGuard<'_, Sched> {
        self.m.lock().unwrap_or_else(|e| e.into_inner())
    }

    /// Pick the successor when the current thread cannot continue. Returns false on deadlock/all done.
    fn hand_over(&self, g: &mut Sched, from: usize, why: &str) {
        let runnable: Vec<usize> = (0..g.status.len()).filter(|i| g.status[*i] == Status::Runnable).collect();
        if runnable.is_empty() {
            if g.status.iter().any(|s| *s == Status::Blocked) {
                let who = (0..g.status.len()).filter(|i| g.status[*i] == Status::Blocked).map(|i| g.names[i].clone()).collect();
                g.deadlock = Some(who);
                g.abort = true;
            }
            g.current = None;
        } else {
            let k = self.ch.choose_free(runnable.len(), "next-thread");
            g.current = Some(runnable[k]);
            g.switches += 1;
            g.trace.push(format!("{}:{why}->{}", g.names[from], g.names[runnable[k]]));
        }
        self.cv.notify_all();
    }

    fn wait_for_baton(&self, mut g: std::sync::MutexGuard<'_, Sched>, id: usize) {
        loop {
            if g.abort {
                drop(g);
                resume_unwind(Box::new(Aborted));
            }
            if g.current == Some(id) {
                return;
            }
            g = self.cv.wait(g).unwrap_or_else(|e| e.into_inner());
        }
    }
}

impl ThreadCtx {
    /// A schedule point: the chooser may preempt the calling thread here.
    pub fn point(&self, label: &'static str) {
        let sh = &self.sh;
        let mut g = sh.lock();
        if g.abort || g.current != Some(self.id) {
            // aborted execution (unwinding) or a point reached by a thread that is not under the
            // baton (e.g. during its own unwinding): never block here
            return;
        }
        g.points += 1;
        if g.points > sh.horizon {
            g.abort = true;
            g.deadlock = None;
            sh.cv.notify_all();
            drop(g);
            resume_unwind(Box::new(Aborted));
        }
        let mut cands: Vec<usize> = vec![self.id];
        cands.extend((0..g.status.len()).filter(|i| *i != self.id && g.status[*i] == Status::Runnable));
        if cands.len() == 1 {
            return;
        }
        let k = sh.ch.choose(cands.len(), "preempt");
        if k == 0 {
            return;
        }
        let next = cands[k];
        g.current = Some(next);
        g.switches += 1;
        let line = format!("{}:preempted@{label}->{}", g.names[self.id], g.names[next]);
        g.trace.push(line);
        sh.cv.notify_all();
        sh.wait_for_baton(g, self.id);
    }

    /// Drive a future on this logical thread; parking is visible to the scheduler.
    pub fn block_on<F: Future>(&self, fut: F) -> F::Output {
        struct W {
            sh: Arc<Shared>,
            id: usize,
        }
        impl Wake for W {
            fn wake(self: Arc<Self>) {
                self.wake_by_ref()
            }
            fn wake_by_ref(self: &Arc<Self>) {
                let mut g = self.sh.lock();
                g.woken[self.id] = true;
                if g.status[self.id] == Status::Blocked {
                    g.status[self.id] = Status::Runnable;
                }
            }
        }
        let waker = Waker::from(Arc::new(W { sh: self.sh.clone(), id: self.id }));
        let mut cx = Context::from_waker(&waker);
        let mut fut = pin!(fut);
        let mut spins = 0u64;
        loop {
            {
                let mut g = self.sh.lock();
                g.woken[self.id] = false;
            }
            if let Poll::Ready(v) = fut.as_mut().poll(&mut cx) {
                return v;
            }
            let sh = &self.sh;
            let mut g = sh.lock();
            if g.abort {
                drop(g);
                resume_unwind(Box::new(Aborted));
            }
            if g.woken[self.id] {
                // woken during its own poll: poll again (bounded)
                spins += 1;
                if spins > sh.horizon {
                    g.abort = true;
                    sh.cv.notify_all();
                    drop(g);
                    resume_unwind(Box::new(Aborted));
                }
                continue;
            }
            g.status[self.id] = Status::Blocked;
            sh.hand_over(&mut g, self.id, "parks");
            sh.wait_for_baton(g, self.id);
        }
    }
}

/// Run the given closures as logical threads under the baton; returns when all have finished or
/// the execution was aborted (deadlock / horizon).
pub fn run_threads(ch: &Chooser, horizon: u64, bodies: Vec<(String, Box<dyn FnOnce(ThreadCtx) + Send>)>) -> ThreadRun {
    let n = bodies.len();
    let sh = Arc::new(Shared {
        m: Mutex::new(Sched {
            current: None,
            status: vec![Status::Runnable; n],
            woken: vec![false; n],
            names: bodies.iter().map(|b| b.0.clone()).collect(),
            abort: false,
            deadlock: None,
            points: 0,
            switches: 0,
            trace: vec![],
        }),
        cv: Condvar::new(),
        ch: ch.clone(),
        horizon,
    });
    let mut handles = vec![];
    for (id, (_name, body)) in bodies.into_iter().enumerate() {
        let sh2 = sh.clone();
        handles.push(std::thread::spawn(move || {
            let ctx = ThreadCtx { sh: sh2.clone(), id };
            let r = catch_unwind(AssertUnwindSafe(|| {
                // wait for the first grant
                let g = sh2.lock();
                sh2.wait_for_baton(g, id);
                let hook_ctx = ctx.clone();
                tokio::verif::set_point_hook(Some(Box::new(move |label| hook_ctx.point(label))));
                body(ctx.clone());
            }));
            tokio::verif::set_point_hook(None);
            let mut g = sh2.lock();
            g.status[id] = Status::Done;
            let res = match r {
                Ok(()) => Ok(()),
                Err(e) if e.is::<Aborted>() => Ok(()),
                Err(e) => {
                    g.abort = true;
                    Err(if let Some(s) = e.downcast_ref::<&str>() {
                        s.to_string()
                    } else if let Some(s) = e.downcast_ref::<String>() {
                        s.clone()
                    } else {
                        "panic".to_string()
                    })
                }
            };
            if g.current == Some(id) && !g.abort {
                sh2.hand_over(&mut g, id, "exits");
            } else {
                sh2.cv.notify_all();
            }
            res
        }));
    }
    // first thread to run is a free choice
    {
        let mut g = sh.lock();
        let k = ch.choose_free(n, "first-thread");
        g.current = Some(k);
        sh.cv.notify_all();
    }
    let mut panic_msg = None;
    for h in handles {
        match h.join() {
            Ok(Ok(())) => {}
            Ok(Err(m)) => panic_msg = Some(m),
            Err(_) => panic_msg = Some("thread wrapper panicked".into()),
        }
    }
    let g = sh.lock();
    let end = if let Some(m) = panic_msg {
        ThreadEnd::Panicked(m)
    } else if let Some(d) = &g.deadlock {
        ThreadEnd::Deadlock(d.clone())
    } else if g.abort {
        ThreadEnd::Horizon
    } else {
        ThreadEnd::Completed
    };
    ThreadRun { end, points: g.points, switches: g.switches, trace: g.trace.clone() }
}

#[cfg(test)]
mod tests {
    use super::*;
    use crate::chooser::{dfs, DfsCfg};
    use std::sync::atomic::{AtomicUsize, Ordering};

    #[test]
    fn finds_lost_wakeup_with_one_preemption() {
        // waiter: checks flag under a tokio mutex, then awaits notified(); notifier: sets flag,
        // notify_waiters().  The textbook lost wake-up needs exactly one preemption.
        let mut deadlocks_at = vec![];
        for bound in 0..=1 {
            let mut deadlocks = 0;
            let st = dfs(
                &DfsCfg { max_dev: bound, ..Default::default() },
                |ch| {
                    let flag = Arc::new(tokio::sync::Mutex::new(false));
                    let notify = Arc::new(tokio::sync::Notify::new());
                    let (f1, n1) = (flag.clone(), notify.clone());
                    let (f2, n2) = (flag.clone(), notify.clone());
                    run_threads(
                        ch,
                        10_000,
                        vec![
                            (
                                "waiter".into(),
                                Box::new(move |cx: ThreadCtx| {
                                    cx.block_on(async {
                                        {
                                            let g = f1.lock().await;
                                            if *g {
                                                return;
                                            }
                                        }
                                        n1.notified().await;
                                    })
                                }),
                            ),
                            (
                                "notifier".into(),
                                Box::new(move |cx: ThreadCtx| {
                                    cx.block_on(async {
                                        {
                                            let mut g = f2.lock().await;
                                            *g = true;
                                        }
                                        n2.notify_waiters();
                                    })
                                }),
                            ),
                        ],
                    )
                },
                |_, r| {
                    if matches!(r.end, ThreadEnd::Deadlock(_)) {
                        deadlocks += 1;
                    }
                },
            );
            assert!(st.executions >= 1);
            deadlocks_at.push(deadlocks);
        }
        assert_eq!(deadlocks_at[0], 0, "no deadlock without preemption");
        assert!(deadlocks_at[1] > 0, "one preemption exposes the lost wake-up");
    }

    #[test]
    fn finds_lost_update() {
        let mut outcomes = std::collections::BTreeSet::new();
        dfs(
            &DfsCfg { max_dev: 1, ..Default::default() },
            |ch| {
                let n = Arc::new(AtomicUsize::new(0));
                let bodies: Vec<(String, Box<dyn FnOnce(ThreadCtx) + Send>)> = (0..2)
                    .map(|i| {
                        let n = n.clone();
                        (
                            format!("t{i}"),
                            Box::new(move |cx: ThreadCtx| {
                                let v = n.load(Ordering::SeqCst);
                                cx.point("between-load-and-store");
                                n.store(v + 1, Ordering::SeqCst);
                            }) as Box<dyn FnOnce(ThreadCtx) + Send>,
                        )
                    })
                    .collect();
                let r = run_threads(ch, 1000, bodies);
                assert_eq!(r.end, ThreadEnd::Completed);
                n.load(Ordering::SeqCst)
            },
            |_, v| {
                outcomes.insert(v);
            },
        );
        assert!(outcomes.contains(&1) && outcomes.contains(&2));
    }
}
