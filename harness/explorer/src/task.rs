//! E-TASK: a controlled single-threaded executor for futures.
//!
//! A vector of pinned futures, each with a flag waker.  A step polls one woken task once; which
//! one is a `Chooser` decision (default: the task that ran last if it is still woken, else the
//! lowest id; any other pick costs one deviation).  "No task woken and not all finished" is
//! deadlock; a step horizon catches livelock.  No tokio runtime is involved, so there are no
//! hidden tasks; tokio's runtime-independent primitives (`sync::*`, `select!`) work on it.
use std::future::Future;
use std::pin::Pin;
use std::sync::atomic::{AtomicBool, AtomicU64, Ordering};
use std::sync::Arc;
use std::task::{Context, Poll, Wake, Waker};

use crate::chooser::Chooser;

pub struct Flag {
    woken: AtomicBool,
    pub wakes: AtomicU64,
}

impl Wake for Flag {
    fn wake(self: Arc<Self>) {
        self.woken.store(true, Ordering::SeqCst);
        self.wakes.fetch_add(1, Ordering::SeqCst);
    }
    fn wake_by_ref(self: &Arc<Self>) {
        self.woken.store(true, Ordering::SeqCst);
        self.wakes.fetch_add(1, Ordering::SeqCst);
    }
}

impl Flag {
    pub fn new(woken: bool) -> Arc<Flag> {
        Arc::new(Flag {
            woken: AtomicBool::new(woken),
            wakes: AtomicU64::new(0),
        })
    }
    pub fn is_woken(&self) -> bool {
        self.woken.load(Ordering::SeqCst)
    }
    pub fn clear(&self) {
        self.woken.store(false, Ordering::SeqCst)
    }
    pub fn wake_count(&self) -> u64 {
        self.wakes.load(Ordering::SeqCst)
    }
}

struct Slot<'a> {
    name: String,
    fut: Option<Pin<Box<dyn Future<Output = ()> + 'a>>>,
    flag: Arc<Flag>,
    /// Daemon tasks (e.g. event pumps) do not count for completion or deadlock.
    daemon: bool,
}

#[derive(Debug, Clone, PartialEq, Eq)]
pub enum End {
    AllDone,
    /// Names of the unfinished, parked tasks.
    Deadlock(Vec<String>),
    Horizon,
}

pub struct Exec<'a> {
    slots: Vec<Slot<'a>>,
    last: Option<usize>,
    pub steps: u64,
    pub switches: u64,
}

impl<'a> Default for Exec<'a> {
    fn default() -> Self {
        Self::new()
    }
}

impl<'a> Exec<'a> {
    pub fn new() -> Self {
        Exec {
            slots: Vec::new(),
            last: None,
            steps: 0,
            switches: 0,
        }
    }

    pub fn spawn(&mut self, name: &str, fut: impl Future<Output = ()> + 'a) -> usize {
        self.slots.push(Slot {
            name: name.to_string(),
            fut: Some(Box::pin(fut)),
            flag: Flag::new(true),
            daemon: false,
        });
        self.slots.len() - 1
    }

    pub fn spawn_daemon(&mut self, name: &str, fut: impl Future<Output = ()> + 'a) -> usize {
        let id = self.spawn(name, fut);
        self.slots[id].daemon = true;
        id
    }

    pub fn is_done(&self, id: usize) -> bool {
        self.slots[id].fut.is_none()
    }

    /// Drop a task's future (cancellation).
    pub fn cancel(&mut self, id: usize) {
        self.slots[id].fut = None;
    }

    fn runnable(&self) -> Vec<usize> {
        let mut v: Vec<usize> = (0..self.slots.len())
            .filter(|&i| self.slots[i].fut.is_some() && self.slots[i].flag.is_woken())
            .collect();
        if let Some(l) = self.last {
            if let Some(p) = v.iter().position(|&x| x == l) {
                v.remove(p);
                v.insert(0, l);
            }
        }
        v
    }

    /// One scheduling step.  Returns `None` when nothing is runnable.
    pub fn step(&mut self, ch: &Chooser) -> Option<usize> {
        let cands = self.runnable();
        if cands.is_empty() {
            return None;
        }
        let k = ch.choose(cands.len(), "sched");
        let id = cands[k];
        if self.last.is_some() && self.last != Some(id) {
            self.switches += 1;
        }
        self.last = Some(id);
        self.steps += 1;
        let slot = &mut self.slots[id];
        slot.flag.clear();
        let waker = Waker::from(slot.flag.clone());
        let mut cx = Context::from_waker(&waker);
        let fut = slot.fut.as_mut().unwrap();
        if let Poll::Ready(()) = fut.as_mut().poll(&mut cx) {
            slot.fut = None;
        }
        Some(id)
    }

    pub fn all_done(&self) -> bool {
        self.slots.iter().all(|s| s.daemon || s.fut.is_none())
    }

    /// Run to quiescence.
    pub fn run(&mut self, ch: &Chooser, horizon: u64) -> End {
        let start = self.steps;
        loop {
            if self.all_done() {
                return End::AllDone;
            }
            if self.steps - start >= horizon {
                return End::Horizon;
            }
            // Only daemons runnable while a real task is parked still lets daemons run: they may
            // wake the real task.
            if self.step(ch).is_none() {
                let parked = self
                    .slots
                    .iter()
                    .filter(|s| !s.daemon && s.fut.is_some())
                    .map(|s| s.name.clone())
                    .collect();
                return End::Deadlock(parked);
            }
        }
    }
}

/// Poll a single future once with a fresh flag waker (for drivers that interleave polls with
/// environment actions themselves).
pub fn poll_once<F: Future + ?Sized>(fut: Pin<&mut F>, flag: &Arc<Flag>) -> Poll<F::Output> {
    flag.clear();
    let waker = Waker::from(flag.clone());
    let mut cx = Context::from_waker(&waker);
    fut.poll(&mut cx)
}

/// Drive one future to completion as long as it keeps waking itself; `Err(())` = it parked
/// without a wake-up (would hang forever with no other actor) or exceeded the horizon.
pub fn block_on_quiescent<F: Future>(fut: F, horizon: u64) -> Result<F::Output, &'static str> {
    let mut fut = std::pin::pin!(fut);
    let flag = Flag::new(true);
    for _ in 0..horizon {
        if !flag.is_woken() {
            return Err("parked without wake-up");
        }
        if let Poll::Ready(v) = poll_once(fut.as_mut(), &flag) {
            return Ok(v);
        }
    }
    Err("horizon")
}

/// A future that yields `n` times (returns Pending after waking itself) before completing.
pub async fn yield_times(n: usize) {
    struct Y(usize);
    impl Future for Y {
        type Output = ();
        fn poll(mut self: Pin<&mut Self>, cx: &mut Context<'_>) -> Poll<()> {
            if self.0 == 0 {
                Poll::Ready(())
            } else {
                self.0 -= 1;
                cx.waker().wake_by_ref();
                Poll::Pending
            }
        }
    }
    Y(n).await
}

/// Install the `tokio::select!` start-branch hook (seam S1) on this thread, drawing from `ch`.
pub fn own_select(ch: &Chooser) {
    let ch = ch.clone();
    tokio::verif::set_select_hook(Some(Box::new(move |n| {
        ch.choose(n as usize, "select") as u32
    })));
}

pub fn disown_select() {
    tokio::verif::set_select_hook(None);
}

#[cfg(test)]
mod tests {
    use super::*;
    use crate::chooser::{dfs, DfsCfg};
    use std::cell::RefCell;
    use std::rc::Rc;

    #[test]
    fn finds_lost_update_and_deadlock() {
        // two tasks doing read; yield; write on a shared cell → lost update on some schedule
        let mut outcomes = std::collections::BTreeSet::new();
        let st = dfs(
            &DfsCfg::default(),
            |ch| {
                let cell = Rc::new(RefCell::new(0));
                let mut ex = Exec::new();
                for i in 0..2 {
                    let cell = cell.clone();
                    ex.spawn(&format!("t{i}"), async move {
                        let v = *cell.borrow();
                        yield_times(1).await;
                        *cell.borrow_mut() = v + 1;
                    });
                }
                let end = ex.run(ch, 100);
                assert_eq!(end, End::AllDone);
                let v = *cell.borrow();
                v
            },
            |_, r| {
                outcomes.insert(r);
            },
        );
        assert!(st.executions >= 2);
        assert!(outcomes.contains(&1) && outcomes.contains(&2));

        // a task waiting on a Notify nobody fires → deadlock
        let ch = Chooser::new(vec![]);
        let n = tokio::sync::Notify::new();
        let mut ex = Exec::new();
        ex.spawn("waiter", async {
            n.notified().await;
        });
        assert_eq!(ex.run(&ch, 100), End::Deadlock(vec!["waiter".into()]));
    }

    #[test]
    fn select_hook_owns_branch() {
        let mut seen = std::collections::BTreeSet::new();
        dfs(
            &DfsCfg::default(),
            |ch| {
                own_select(ch);
                let r = block_on_quiescent(
                    async {
                        tokio::select! {
                            _ = std::future::ready(()) => 1,
                            _ = std::future::ready(()) => 2,
                        }
                    },
                    10,
                )
                .unwrap();
                disown_select();
                r
            },
            |_, r| {
                seen.insert(r);
            },
        );
        assert_eq!(seen.len(), 2);
    }
}
