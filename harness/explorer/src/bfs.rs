//! E-BFS: explicit-state breadth-first search over states produced by real transition functions.
use std::collections::{HashMap, VecDeque};
use std::hash::Hash;
use std::time::{Duration, Instant};

#[derive(Debug, Default, Clone)]
pub struct BfsStats {
    pub states: u64,
    pub transitions: u64,
    pub max_depth: usize,
    pub capped: bool,
}

pub struct BfsCfg {
    pub max_depth: usize,
    pub max_states: u64,
    pub wall: Duration,
}

impl Default for BfsCfg {
    fn default() -> Self {
        BfsCfg {
            max_depth: usize::MAX,
            max_states: u64::MAX,
            wall: Duration::from_secs(3600),
        }
    }
}

/// `succ(state, depth)` returns labelled successors; `key` canonicalises; `visit` is called once
/// per *transition* with (parent, label, child, is_new) so invariants and differential tables can
/// be evaluated on every edge.  The path to each state is kept as a list of labels for replay.
pub fn bfs<S, K, L>(
    cfg: &BfsCfg,
    init: Vec<S>,
    key: impl Fn(&S) -> K,
    mut succ: impl FnMut(&S, usize) -> Vec<(L, S)>,
    mut visit: impl FnMut(Option<&S>, Option<&L>, &S, bool, &dyn Fn() -> Vec<L>),
) -> BfsStats
where
    K: Hash + Eq + Clone,
    L: Clone,
{
    let start = Instant::now();
    let mut stats = BfsStats::default();
    // parent pointers for path reconstruction
    let mut parent: Vec<(usize, Option<L>)> = Vec::new();
    let mut seen: HashMap<K, usize> = HashMap::new();
    let mut q: VecDeque<(S, usize, usize)> = VecDeque::new(); // state, depth, node id
    let path_of = |parent: &Vec<(usize, Option<L>)>, mut id: usize| -> Vec<L> {
        let mut p = vec![];
        while let (pid, Some(l)) = &parent[id] {
            p.push(l.clone());
            id = *pid;
        }
        p.reverse();
        p
    };
    for s in init {
        let k = key(&s);
        if seen.contains_key(&k) {
            continue;
        }
        let id = parent.len();
        parent.push((usize::MAX, None));
        seen.insert(k, id);
        stats.states += 1;
        {
            let pr = &parent;
            visit(None, None, &s, true, &|| path_of(pr, id));
        }
        q.push_back((s, 0, id));
    }
    while let Some((s, d, id)) = q.pop_front() {
        stats.max_depth = stats.max_depth.max(d);
        if d >= cfg.max_depth {
            continue;
        }
        if stats.states >= cfg.max_states || start.elapsed() > cfg.wall {
            stats.capped = true;
            break;
        }
        for (l, n) in succ(&s, d) {
            stats.transitions += 1;
            let k = key(&n);
            let existing = seen.get(&k).copied();
            let is_new = existing.is_none();
            let nid = match existing {
                Some(i) => i,
                None => {
                    let nid = parent.len();
                    parent.push((id, Some(l.clone())));
                    seen.insert(k, nid);
                    stats.states += 1;
                    nid
                }
            };
            {
                let pr = &parent;
                let l2 = l.clone();
                // path to the parent plus this label = the trace that produced `n` now
                visit(Some(&s), Some(&l), &n, is_new, &|| {
                    let mut p = path_of(pr, id);
                    p.push(l2.clone());
                    p
                });
            }
            let _ = nid;
            if is_new {
                q.push_back((n, d + 1, nid));
            }
        }
    }
    stats
}

#[cfg(test)]
mod tests {
    use super::*;
    #[test]
    fn counter_space() {
        // states (a,b) with a,b<=2, transitions inc a / inc b
        let st = bfs(
            &BfsCfg::default(),
            vec![(0u8, 0u8)],
            |s| *s,
            |s, _| {
                let mut v = vec![];
                if s.0 < 2 {
                    v.push(("a", (s.0 + 1, s.1)));
                }
                if s.1 < 2 {
                    v.push(("b", (s.0, s.1 + 1)));
                }
                v
            },
            |_, _, _, _, _| {},
        );
        assert_eq!(st.states, 9);
        assert_eq!(st.transitions, 12);
    }
}
