//! Evidence writer, violation collection, known-findings matching, replay artefacts, exit code.
use std::collections::{BTreeMap, HashSet};
use std::hash::{Hash, Hasher};
use std::path::PathBuf;
use std::time::Instant;

use serde_json::{json, Map, Value};

pub const EXIT_OK: i32 = 0;
pub const EXIT_VIOLATION: i32 = 1;
pub const EXIT_MACHINERY: i32 = 2;

pub fn verif_root() -> PathBuf {
    PathBuf::from(std::env::var("VERIF_ROOT").unwrap_or_else(|_| "/verif".to_string()))
}

#[derive(Clone, Debug)]
pub struct Args {
    pub property: String,
    pub tier: String,
    pub seed: i64,
    pub replay: Option<PathBuf>,
    pub threads: usize,
}

/// glibc trims the heap (madvise/brk) whenever a large free block appears at its top; with many
/// short executions per second on several threads this dominated the run time (sys time).
pub fn tune_allocator() {
    #[cfg(all(target_os = "linux", target_env = "gnu"))]
    unsafe {
        libc::mallopt(libc::M_TRIM_THRESHOLD, 1 << 30);
        libc::mallopt(libc::M_MMAP_THRESHOLD, 1 << 30);
    }
}

impl Args {
    pub fn parse() -> Args {
        tune_allocator();
        let mut it = std::env::args().skip(1);
        let property = it.next().unwrap_or_else(|| {
            eprintln!("usage: <bin> <Cxx> [--tier quick|thorough] [--replay file]");
            std::process::exit(EXIT_MACHINERY)
        });
        let mut tier = std::env::var("VERIF_TIER").unwrap_or_else(|_| "quick".into());
        let mut tier_cli = None;
        let mut replay = None;
        while let Some(a) = it.next() {
            match a.as_str() {
                "--tier" => tier_cli = it.next(),
                "--replay" => replay = it.next().map(PathBuf::from),
                _ => {}
            }
        }
        if let Some(t) = tier_cli {
            tier = t;
        }
        if tier != "quick" && tier != "thorough" {
            tier = "quick".into();
        }
        let seed = std::env::var("VERIF_SEED")
            .ok()
            .and_then(|s| s.parse().ok())
            .unwrap_or(0);
        let threads = std::env::var("VERIF_THREADS")
            .ok()
            .and_then(|s| s.parse().ok())
            .unwrap_or_else(|| {
                std::thread::available_parallelism()
                    .map(|n| n.get())
                    .unwrap_or(4)
            });
        Args {
            property,
            tier,
            seed,
            replay,
            threads,
        }
    }
    pub fn thorough(&self) -> bool {
        self.tier == "thorough"
    }
}

pub fn h64<T: Hash + ?Sized>(t: &T) -> u64 {
    // FNV-style fixed hasher so counts do not depend on RandomState.
    struct Fnv(u64);
    impl Hasher for Fnv {
        fn finish(&self) -> u64 {
            self.0
        }
        fn write(&mut self, bytes: &[u8]) {
            for b in bytes {
                self.0 ^= *b as u64;
                self.0 = self.0.wrapping_mul(0x100000001b3);
            }
        }
    }
    let mut h = Fnv(0xcbf29ce484222325);
    t.hash(&mut h);
    h.finish()
}

#[derive(Clone, Debug)]
pub struct Violation {
    /// Canonical identifier of the failing input / call site / history class.
    pub key: String,
    /// Human explanation (what was expected, what was observed).
    pub what: String,
    /// Everything needed to re-execute: part name, choice vector or input tuple.
    pub replay: Value,
}

pub struct Report {
    pub args: Args,
    pub level: &'static str,
    start: Instant,
    pub evaluations: u64,
    pub transitions: u64,
    pub traces_validated: u64,
    states: HashSet<u64>,
    nontrivial: HashSet<u64>,
    nontrivial_counted: u64,
    outcomes: HashSet<u64>,
    samples: Vec<Value>,
    pub max_samples: usize,
    pub rule: String,
    pub assumptions: Vec<String>,
    pub extra: Map<String, Value>,
    pub exhaustive: bool,
    violations: BTreeMap<String, (Violation, u64)>,
    machinery_errors: Vec<String>,
    parts: Vec<Value>,
}

impl Report {
    pub fn new(args: &Args, level: &'static str) -> Report {
        Report {
            args: args.clone(),
            level,
            start: Instant::now(),
            evaluations: 0,
            transitions: 0,
            traces_validated: 0,
            states: HashSet::new(),
            nontrivial: HashSet::new(),
            nontrivial_counted: 0,
            outcomes: HashSet::new(),
            samples: Vec::new(),
            max_samples: 5,
            rule: String::new(),
            assumptions: Vec::new(),
            extra: Map::new(),
            exhaustive: true,
            violations: BTreeMap::new(),
            machinery_errors: Vec::new(),
            parts: Vec::new(),
        }
    }

    pub fn thorough(&self) -> bool {
        self.args.thorough()
    }
    pub fn eval(&mut self) {
        self.evaluations += 1;
    }
    pub fn evals(&mut self, n: u64) {
        self.evaluations += n;
    }
    pub fn transition(&mut self) {
        self.transitions += 1;
    }
    /// Record a distinct canonical state (hashed).
    pub fn state<T: Hash + ?Sized>(&mut self, t: &T) -> bool {
        self.states.insert(h64(t))
    }
    /// Record a distinct non-trivial case (by the check's stated rule).
    pub fn nontrivial<T: Hash + ?Sized>(&mut self, t: &T) {
        self.nontrivial.insert(h64(t));
    }
    /// Add `n` non-trivial cases that are distinct by construction (each enumerated input is
    /// visited exactly once), counted by the caller.
    pub fn nontrivial_count(&mut self, n: u64) {
        self.nontrivial_counted += n;
    }
    /// Record a distinct observed outcome.
    pub fn outcome<T: Hash + ?Sized>(&mut self, t: &T) {
        self.outcomes.insert(h64(t));
    }
    pub fn sample(&mut self, v: Value) {
        if self.samples.len() < self.max_samples {
            self.samples.push(v);
        }
    }
    pub fn want_sample(&self) -> bool {
        self.samples.len() < self.max_samples
    }
    pub fn assume(&mut self, s: &str) {
        if !self.assumptions.iter().any(|a| a == s) {
            self.assumptions.push(s.to_string());
        }
    }
    pub fn set(&mut self, k: &str, v: Value) {
        self.extra.insert(k.to_string(), v);
    }
    /// Record a per-part summary (a check may consist of several explorations).
    pub fn part(&mut self, v: Value) {
        self.parts.push(v);
    }
    pub fn not_exhaustive(&mut self, why: &str) {
        self.exhaustive = false;
        let mut caps = self
            .extra
            .remove("caps_hit")
            .and_then(|v| v.as_array().cloned())
            .unwrap_or_default();
        caps.push(json!(why));
        self.extra.insert("caps_hit".into(), Value::Array(caps));
    }
    pub fn machinery_error(&mut self, s: String) {
        self.machinery_errors.push(s);
    }
    pub fn violation(&mut self, key: impl Into<String>, what: impl Into<String>, replay: Value) {
        let key = key.into();
        let e = self.violations.entry(key.clone()).or_insert_with(|| {
            (
                Violation {
                    key,
                    what: what.into(),
                    replay,
                },
                0,
            )
        });
        e.1 += 1;
    }
    pub fn violation_count(&self) -> usize {
        self.violations.len()
    }
    pub fn has_violation(&self, key: &str) -> bool {
        self.violations.contains_key(key)
    }

    /// Absorb the statistics of a DFS exploration.
    pub fn absorb_dfs(&mut self, name: &str, st: &crate::chooser::DfsStats, max_dev: usize) {
        self.evaluations += st.executions;
        self.transitions += st.decision_points;
        if st.capped {
            self.not_exhaustive(&format!("{name}: execution/wall cap hit after {} executions", st.executions));
        }
        for d in &st.divergences {
            self.machinery_errors.push(format!("{name}: {d}"));
        }
        self.parts.push(json!({
            "part": name, "executions": st.executions, "decision_points": st.decision_points,
            "max_depth": st.max_depth, "capped": st.capped,
            "deviation_bound": if max_dev == usize::MAX { Value::String("unbounded".into()) } else { json!(max_dev) },
        }));
    }

    fn known_findings(&self) -> (Vec<(String, String, String)>, Option<String>) {
        let p = verif_root().join("known_findings.json");
        let Ok(s) = std::fs::read_to_string(&p) else {
            return (vec![], None);
        };
        let v: Value = match serde_json::from_str(&s) {
            Ok(v) => v,
            Err(e) => return (vec![], Some(format!("known_findings.json unreadable: {e}"))),
        };
        let mut out = vec![];
        for f in v.get("findings").and_then(|f| f.as_array()).into_iter().flatten() {
            let g = |k: &str| f.get(k).and_then(|x| x.as_str()).unwrap_or("").to_string();
            out.push((g("property"), g("key"), g("what")));
        }
        (out, None)
    }

    /// Write evidence, replay artefacts, print verdict lines; returns the process exit code.
    pub fn finish(mut self) -> i32 {
        let id = self.args.property.clone();
        let root = verif_root();
        let (known, kerr) = self.known_findings();
        if let Some(e) = kerr {
            self.machinery_errors.push(e);
        }
        let mut new_violations = vec![];
        let mut known_hits = vec![];
        for (key, (v, count)) in &self.violations {
            if let Some(k) = known.iter().find(|k| k.0 == id && &k.1 == key) {
                known_hits.push((key.clone(), k.2.clone(), *count));
            } else {
                new_violations.push((v.clone(), *count));
            }
        }
        let wall = self.start.elapsed().as_secs_f64();
        let replay_mode = self.args.replay.is_some();

        // Replay artefacts for new violations.
        let mut replay_paths = vec![];
        if !replay_mode {
            let dir = root.join("replays");
            let _ = std::fs::create_dir_all(&dir);
            // remove stale artefacts of this property
            if let Ok(rd) = std::fs::read_dir(&dir) {
                for e in rd.flatten() {
                    let n = e.file_name().to_string_lossy().to_string();
                    if n.starts_with(&format!("{id}-")) && n.ends_with(".json") {
                        let _ = std::fs::remove_file(e.path());
                    }
                }
            }
            for (i, (v, count)) in new_violations.iter().enumerate() {
                let path = dir.join(format!("{id}-{i}.json"));
                let body = json!({
                    "property": id, "key": v.key, "what": v.what, "occurrences": count,
                    "tier": self.args.tier, "replay": v.replay,
                });
                let _ = std::fs::write(&path, serde_json::to_string_pretty(&body).unwrap());
                replay_paths.push(path);
            }
        }

        // Evidence.
        if !replay_mode {
            let mut cov = Map::new();
            cov.insert("evaluations".into(), json!(self.evaluations));
            cov.insert("distinct_nontrivial".into(), json!(self.nontrivial.len() as u64 + self.nontrivial_counted));
            cov.insert("rule".into(), json!(self.rule));
            cov.insert("samples".into(), Value::Array(self.samples.clone()));
            // A check that did not register canonical states / steps of its own falls back to what
            // it did measure: distinct observed outcomes, and one step of the code under test per
            // evaluation.
            let states = if !self.states.is_empty() {
                self.states.len() as u64
            } else if !self.outcomes.is_empty() {
                self.outcomes.len() as u64
            } else {
                self.evaluations
            };
            let transitions = if self.transitions > 0 { self.transitions } else { self.evaluations };
            cov.insert("states".into(), json!(states));
            cov.insert("transitions".into(), json!(transitions));
            // Every check executes the real p2panda code (no abstract model), so unless a check
            // counts separately (e.g. MemStore runs replayed on SQLite) every explored execution
            // is itself a trace run against the implementation.
            let validated = if self.traces_validated == 0 {
                self.evaluations
            } else {
                self.traces_validated
            };
            cov.insert("traces_validated_against_impl".into(), json!(validated));
            cov.insert("distinct_outcomes".into(), json!(self.outcomes.len()));
            cov.insert("exhaustive".into(), json!(self.exhaustive));
            cov.insert("parts".into(), Value::Array(self.parts.clone()));
            cov.insert(
                "known_findings_hit".into(),
                Value::Array(
                    known_hits
                        .iter()
                        .map(|(k, w, c)| json!({"key": k, "what": w, "occurrences": c}))
                        .collect(),
                ),
            );
            cov.insert(
                "new_violation_keys".into(),
                Value::Array(new_violations.iter().map(|(v, _)| json!(v.key)).collect()),
            );
            for (k, v) in &self.extra {
                cov.insert(k.clone(), v.clone());
            }
            let ev = json!({
                "property_id": id,
                "tier": self.args.tier,
                "seed": self.args.seed,
                "level": self.level,
                "coverage": Value::Object(cov),
                "assumptions": self.assumptions,
                "wall_s": wall,
                "violations": new_violations.len(),
            });
            let dir = root.join("evidence");
            let _ = std::fs::create_dir_all(&dir);
            if let Err(e) = std::fs::write(
                dir.join(format!("{id}.json")),
                serde_json::to_string_pretty(&ev).unwrap(),
            ) {
                self.machinery_errors.push(format!("cannot write evidence: {e}"));
            }
        }

        if let Some(rp) = &self.args.replay {
            // Generic replay: the check re-executed its exploration; report only the recorded key.
            let want = load_replay(rp).map(|x| x.0).unwrap_or_default();
            let hit = self.violations.get(&want);
            match hit {
                Some((v, c)) => {
                    println!("REPLAY reproduced property={id} key={} occurrences={c}", v.key);
                    println!("  {}", v.what);
                    println!("  replay={}", v.replay);
                    println!("VIOLATION property={id} replay={}", rp.display());
                    return EXIT_VIOLATION;
                }
                None => {
                    println!("REPLAY not reproduced property={id} key={want}");
                    return if self.machinery_errors.is_empty() { EXIT_OK } else { EXIT_MACHINERY };
                }
            }
        }
        for (key, what, count) in &known_hits {
            println!("KNOWN-FINDING: property={id} {what} [key={key} occurrences={count}]");
        }
        for (i, (v, count)) in new_violations.iter().enumerate() {
            let path = replay_paths
                .get(i)
                .cloned()
                .or_else(|| self.args.replay.clone())
                .unwrap_or_default();
            println!("VIOLATION property={id} replay={}", path.display());
            println!("  key={} occurrences={count}", v.key);
            println!("  {}", v.what);
        }
        for e in &self.machinery_errors {
            eprintln!("MACHINERY-ERROR property={id} {e}");
        }
        println!(
            "{id} tier={} level={} evaluations={} states={} transitions={} nontrivial={} outcomes={} exhaustive={} known={} violations={} wall={:.1}s",
            self.args.tier,
            self.level,
            self.evaluations,
            self.states.len(),
            self.transitions,
            self.nontrivial.len() as u64 + self.nontrivial_counted,
            self.outcomes.len(),
            self.exhaustive,
            known_hits.len(),
            new_violations.len(),
            wall
        );
        if !self.machinery_errors.is_empty() {
            EXIT_MACHINERY
        } else if !new_violations.is_empty() {
            EXIT_VIOLATION
        } else {
            EXIT_OK
        }
    }
}

/// Load a replay artefact: returns the `replay` object and the key.
pub fn load_replay(path: &std::path::Path) -> Result<(String, Value), String> {
    let s = std::fs::read_to_string(path).map_err(|e| format!("{}: {e}", path.display()))?;
    let v: Value = serde_json::from_str(&s).map_err(|e| e.to_string())?;
    let key = v
        .get("key")
        .and_then(|k| k.as_str())
        .unwrap_or("")
        .to_string();
    Ok((key, v.get("replay").cloned().unwrap_or(Value::Null)))
}

/// Run a closure, turning a panic into `Err(message)`.
pub fn catch<R>(f: impl FnOnce() -> R) -> Result<R, String> {
    match std::panic::catch_unwind(std::panic::AssertUnwindSafe(f)) {
        Ok(r) => Ok(r),
        Err(e) => Err(if let Some(s) = e.downcast_ref::<&str>() {
            s.to_string()
        } else if let Some(s) = e.downcast_ref::<String>() {
            s.clone()
        } else {
            "panic (non-string payload)".to_string()
        }),
    }
}

static LAST_PANIC: std::sync::Mutex<Vec<String>> = std::sync::Mutex::new(Vec::new());

/// Silence the default panic message printing (panics inside `catch` are expected outcomes); the
/// most recent panic is remembered so that `guard_main` can report one that was *not* caught.
pub fn quiet_panics() {
    std::panic::set_hook(Box::new(|info| {
        let msg = if let Some(s) = info.payload().downcast_ref::<&str>() {
            s.to_string()
        } else if let Some(s) = info.payload().downcast_ref::<String>() {
            s.clone()
        } else {
            "panic".to_string()
        };
        let at = info.location().map(|l| format!(" at {}:{}", l.file(), l.line())).unwrap_or_default();
        if std::env::var_os("VERIF_PANIC_TRACE").is_some() {
            eprintln!("panic: {msg}{at}\n{}", std::backtrace::Backtrace::force_capture());
        }
        if let Ok(mut g) = LAST_PANIC.lock() {
            if g.len() >= 4 {
                g.remove(0);
            }
            g.push(format!("{msg}{at}"));
        }
    }));
}

/// Run a check's body; a panic that escapes it is a failure of the machinery (exit code 2 with a
/// `MACHINERY-ERROR` line), never a verdict and never a silent exit.
pub fn guard_main(property: &str, f: impl FnOnce() -> i32) -> i32 {
    match std::panic::catch_unwind(std::panic::AssertUnwindSafe(f)) {
        Ok(code) => code,
        Err(_) => {
            let what = LAST_PANIC.lock().map(|g| g.join(" <- then: ")).unwrap_or_else(|_| "panic".into());
            println!("MACHINERY-ERROR property={property} harness panicked: {what}");
            2
        }
    }
}
