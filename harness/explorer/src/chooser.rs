//! E-DFS: stateless choice-vector exploration with a deviation budget.
//!
//! Harness code calls `Chooser::choose(n, label)` at every decision.  A run replays a recorded
//! prefix (a mismatch is a hard machinery error), then takes choice 0 everywhere.  After the run,
//! every later decision point spawns its untried alternatives.  Choice 0 is the default
//! environment answer; every non-zero choice at a *costed* point is one deviation.  `choose_free`
//! points are enumerated exhaustively and cost nothing.
use std::sync::{Arc, Mutex};
use std::time::{Duration, Instant};

#[derive(Clone, Debug, PartialEq, Eq)]
pub struct Choice {
    pub n: u32,
    pub c: u32,
    pub free: bool,
    pub label: &'static str,
}

#[derive(Default)]
struct Inner {
    prefix: Vec<u32>,
    log: Vec<Choice>,
    diverged: Option<String>,
}

/// Shared, cloneable handle so executor, select hook and scripted environment parts all draw from
/// the same choice vector.
#[derive(Clone, Default)]
pub struct Chooser(Arc<Mutex<Inner>>);

impl Chooser {
    pub fn new(prefix: Vec<u32>) -> Self {
        Chooser(Arc::new(Mutex::new(Inner {
            prefix,
            log: Vec::new(),
            diverged: None,
        })))
    }

    fn pick(&self, n: usize, label: &'static str, free: bool) -> usize {
        assert!(n >= 1, "choose with n = 0 at {label}");
        let mut g = self.0.lock().unwrap_or_else(|e| e.into_inner());
        let pos = g.log.len();
        let c = if pos < g.prefix.len() {
            let c = g.prefix[pos];
            if c as usize >= n {
                g.diverged = Some(format!(
                    "replay divergence at point {pos} ({label}): recorded choice {c} but only {n} alternatives"
                ));
                0
            } else {
                c
            }
        } else {
            0
        };
        g.log.push(Choice {
            n: n as u32,
            c,
            free,
            label,
        });
        c as usize
    }

    /// A costed decision: any non-zero answer is one deviation.
    pub fn choose(&self, n: usize, label: &'static str) -> usize {
        if n == 1 {
            return 0;
        }
        self.pick(n, label, false)
    }

    /// A free decision: enumerated exhaustively, never counted against the deviation budget.
    pub fn choose_free(&self, n: usize, label: &'static str) -> usize {
        if n == 1 {
            return 0;
        }
        self.pick(n, label, true)
    }

    /// True when the run so far contradicts the recorded prefix (a recorded choice was out of
    /// range, or fewer decisions were made than the prefix holds).  Only meaningful after the run.
    pub fn off_prefix(&self) -> bool {
        let g = self.0.lock().unwrap_or_else(|e| e.into_inner());
        g.diverged.is_some() || g.log.len() < g.prefix.len()
    }

    /// Forget the decisions of this run (keeps the prefix): lets a harness repeat an execution
    /// whose outside world (threads not under the scheduler) was too slow to follow the prefix.
    pub fn reset(&self) {
        let mut g = self.0.lock().unwrap_or_else(|e| e.into_inner());
        g.log.clear();
        g.diverged = None;
    }

    pub fn log(&self) -> Vec<Choice> {
        self.0.lock().unwrap_or_else(|e| e.into_inner()).log.clone()
    }

    pub fn vector(&self) -> Vec<u32> {
        self.log().iter().map(|c| c.c).collect()
    }

    pub fn diverged(&self) -> Option<String> {
        self.0
            .lock()
            .unwrap_or_else(|e| e.into_inner())
            .diverged
            .clone()
    }

    pub fn deviations(&self) -> usize {
        self.log().iter().filter(|c| !c.free && c.c != 0).count()
    }

    pub fn describe(&self) -> String {
        self.log()
            .iter()
            .map(|c| format!("{}={}/{}", c.label, c.c, c.n))
            .collect::<Vec<_>>()
            .join(" ")
    }
}

#[derive(Clone, Debug)]
pub struct DfsCfg {
    /// Maximum number of deviations (non-zero answers at costed points) per execution.
    pub max_dev: usize,
    /// Hard cap on executions (a cap that is hit is reported, never called exhaustive).
    pub max_execs: u64,
    /// Wall-clock cap.
    pub wall: Duration,
    /// Worker threads (1 = sequential, deterministic order).
    pub threads: usize,
}

impl Default for DfsCfg {
    fn default() -> Self {
        DfsCfg {
            max_dev: usize::MAX,
            max_execs: u64::MAX,
            wall: Duration::from_secs(3600),
            threads: 1,
        }
    }
}

#[derive(Clone, Debug, Default)]
pub struct DfsStats {
    pub executions: u64,
    pub decision_points: u64,
    pub max_depth: usize,
    pub capped: bool,
    pub divergences: Vec<String>,
}

fn expand(prefix_len: usize, log: &[Choice], max_dev: usize, out: &mut Vec<Vec<u32>>) {
    // Deviations already spent at each position.
    let mut spent = 0usize;
    let mut spent_before = Vec::with_capacity(log.len());
    for c in log {
        spent_before.push(spent);
        if !c.free && c.c != 0 {
            spent += 1;
        }
    }
    // Push in reverse so the stack pops the shallowest, lowest alternative last → DFS order
    // "deepest first"; order is irrelevant for completeness.
    for i in (prefix_len..log.len()).rev() {
        let c = &log[i];
        debug_assert_eq!(c.c, 0, "positions beyond the prefix take the default");
        let cost = spent_before[i] + if c.free { 0 } else { 1 };
        if cost > max_dev {
            continue;
        }
        for alt in (1..c.n).rev() {
            let mut v: Vec<u32> = log[..i].iter().map(|x| x.c).collect();
            v.push(alt);
            out.push(v);
        }
    }
}

/// Sequential exhaustive DFS.  `run` executes the system once under the chooser and returns an
/// observation; `sink` receives (chooser, observation) for every execution.
pub fn dfs<R>(
    cfg: &DfsCfg,
    mut run: impl FnMut(&Chooser) -> R,
    mut sink: impl FnMut(&Chooser, R),
) -> DfsStats {
    let start = Instant::now();
    let mut stats = DfsStats::default();
    let mut stack: Vec<Vec<u32>> = vec![vec![]];
    while let Some(prefix) = stack.pop() {
        if stats.executions >= cfg.max_execs || start.elapsed() > cfg.wall {
            stats.capped = true;
            break;
        }
        let plen = prefix.len();
        let ch = Chooser::new(prefix);
        let r = run(&ch);
        let log = ch.log();
        stats.executions += 1;
        stats.decision_points += log.len() as u64;
        stats.max_depth = stats.max_depth.max(log.len());
        if let Some(d) = ch.diverged() {
            stats.divergences.push(d);
        }
        if log.len() < plen {
            stats.divergences.push(format!(
                "replay divergence: prefix of {plen} choices but the run made only {} decisions",
                log.len()
            ));
        }
        expand(plen.min(log.len()), &log, cfg.max_dev, &mut stack);
        sink(&ch, r);
    }
    stats
}

/// Parallel exhaustive DFS over a shared work stack.  `run` must build all of its state per call.
pub fn dfs_par<R: Send>(
    cfg: &DfsCfg,
    run: impl Fn(&Chooser) -> R + Sync,
    sink: impl FnMut(&Chooser, R) + Send,
) -> DfsStats {
    if cfg.threads <= 1 {
        return dfs(cfg, |c| run(c), sink);
    }
    let start = Instant::now();
    let stats = Mutex::new(DfsStats::default());
    let stack: Mutex<(Vec<Vec<u32>>, usize)> = Mutex::new((vec![vec![]], 0)); // (work, in-flight)
    let sink = Mutex::new(sink);
    std::thread::scope(|s| {
        for _ in 0..cfg.threads {
            s.spawn(|| {
                loop {
                    let prefix = {
                        let mut g = stack.lock().unwrap();
                        match g.0.pop() {
                            Some(p) => {
                                g.1 += 1;
                                Some(p)
                            }
                            None if g.1 == 0 => return,
                            None => None,
                        }
                    };
                    let Some(prefix) = prefix else {
                        std::thread::yield_now();
                        continue;
                    };
                    {
                        let mut st = stats.lock().unwrap();
                        if st.executions >= cfg.max_execs || start.elapsed() > cfg.wall {
                            st.capped = true;
                            let mut g = stack.lock().unwrap();
                            g.0.clear();
                            g.1 -= 1;
                            continue;
                        }
                        st.executions += 1;
                    }
                    let plen = prefix.len();
                    let ch = Chooser::new(prefix);
                    let r = run(&ch);
                    let log = ch.log();
                    let mut more = Vec::new();
                    expand(plen.min(log.len()), &log, cfg.max_dev, &mut more);
                    {
                        let mut st = stats.lock().unwrap();
                        st.decision_points += log.len() as u64;
                        st.max_depth = st.max_depth.max(log.len());
                        if let Some(d) = ch.diverged() {
                            st.divergences.push(d);
                        }
                        if log.len() < plen {
                            st.divergences
                                .push(format!("replay divergence: short run ({} < {plen})", log.len()));
                        }
                    }
                    (sink.lock().unwrap())(&ch, r);
                    let capped = stats.lock().unwrap().capped;
                    let mut g = stack.lock().unwrap();
                    if !capped {
                        g.0.extend(more);
                    }
                    g.1 -= 1;
                }
            });
        }
    });
    stats.into_inner().unwrap()
}

/// Run exactly one recorded vector (replay).
pub fn replay<R>(vector: Vec<u32>, run: impl FnOnce(&Chooser) -> R) -> (Chooser, R) {
    let ch = Chooser::new(vector);
    let r = run(&ch);
    (ch, r)
}

#[cfg(test)]
mod tests {
    use super::*;

    #[test]
    fn enumerates_all_vectors() {
        // three binary decisions → 8 executions, unbounded deviations
        let mut seen = std::collections::BTreeSet::new();
        let st = dfs(
            &DfsCfg::default(),
            |c| (c.choose(2, "a"), c.choose(2, "b"), c.choose(2, "c")),
            |_, r| {
                assert!(seen.insert(r));
            },
        );
        assert_eq!(st.executions, 8);
        // bound 1 → 1 + 3
        let mut n = 0;
        let st = dfs(
            &DfsCfg {
                max_dev: 1,
                ..Default::default()
            },
            |c| (c.choose(2, "a"), c.choose(2, "b"), c.choose(2, "c")),
            |_, _| n += 1,
        );
        assert_eq!(st.executions, 4);
        // free choices are not costed
        let st = dfs(
            &DfsCfg {
                max_dev: 0,
                ..Default::default()
            },
            |c| (c.choose_free(3, "a"), c.choose(2, "b")),
            |_, _| {},
        );
        assert_eq!(st.executions, 3);
        let st = dfs_par(
            &DfsCfg {
                threads: 4,
                ..Default::default()
            },
            |c| (c.choose(2, "a"), c.choose(3, "b"), c.choose(2, "c")),
            |_, _| {},
        );
        assert_eq!(st.executions, 12);
    }
}
